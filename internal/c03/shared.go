package c03

import (
	"bytes"
	"fmt"
	"math/rand"
	"runtime"
	"strings"
	"sync"
	"sync/atomic"
	"time"

	"go.starlark.net/starlark"

	"verif/internal/driver"
	"verif/internal/sl"
)

// The shared-program arm: ONE compiled *starlark.Program (from SourceProgramOptions, or from
// Write -> CompiledProgram) is Init-ed by N goroutines released together, a FRESH Program per trial,
// so that whatever the implementation computes lazily per compiled function (the decoded line-number
// table behind every frame position) is computed for the first time while the other goroutines ask
// for it. The programs fail late inside long functions, several frames deep, and call a host
// built-in that captures Thread.CallStack() at several depths. Every goroutine's Record is compared
// with a solo reference produced from a separate Program compiled from the same source.

// sharedProgram generates a program with k long functions L0..L(k-1) calling each other; the last one
// fails on its last line. The bodies are skipped at run time ("if big:"), so an execution takes few
// steps but the failing instruction and every call site lie at the end of a long line table.
func sharedProgram(r *rand.Rand) (c Case, tags []string) {
	bits := r.Intn(64)
	k := 1 + r.Intn(4)
	total := []int{6000, 12000, 20000, 20000, 28000, 40000}[r.Intn(6)]
	var b strings.Builder
	failing := []string{
		"fail(\"boom\", n)", "n // 0", "[][n]", "{}[\"a-missing-key-of-some-length\"]", "None.x", "\"abc\".xstrip()", "int(\"not a number\")",
		"(lambda a, b: a)(n)", "hs.versionx", "json.decode(\"{\")", "stack(\"last\", n) + 1",
	}[r.Intn(11)]
	weights := make([]int, k)
	sum := 0
	for i := range weights {
		weights[i] = 1 + r.Intn(4)
		if i == k-1 {
			weights[i] += 3 // the failing function is long
		}
		sum += weights[i]
	}
	// defined in reverse order sometimes, so that call sites refer to later/earlier definitions
	order := make([]int, k)
	for i := range order {
		order[i] = i
	}
	if r.Intn(2) == 0 {
		for i, j := 0, k-1; i < j; i, j = i+1, j-1 {
			order[i], order[j] = order[j], order[i]
		}
	}
	for _, i := range order {
		n := total * weights[i] / sum
		fmt.Fprintf(&b, "def L%d(big, n):\n    if big:\n", i)
		switch r.Intn(3) {
		case 0:
			for j := 0; j < n; j++ {
				fmt.Fprintf(&b, "        a%d = %d\n", j%10, j)
			}
		case 1:
			for j := 0; j < n; j++ {
				fmt.Fprintf(&b, "        a%d = [n, %d]; b%d = a%d[0] + %d\n", j%7, j, j%5, j%7, j)
			}
		default:
			for j := 0; j < n; j++ {
				if j%50 == 49 {
					fmt.Fprintf(&b, "\n        # block %d\n\n", j/50)
				}
				fmt.Fprintf(&b, "        %sv%d = n + %d\n", strings.Repeat(" ", 0), j%9, j)
			}
		}
		if r.Intn(3) > 0 {
			fmt.Fprintf(&b, "    stack(\"L%d\", n)\n", i)
		}
		if i == k-1 {
			fmt.Fprintf(&b, "    return %s\n", failing)
			continue
		}
		next := fmt.Sprintf("L%d(big, n + 1)", i+1)
		switch r.Intn(5) {
		case 0:
			fmt.Fprintf(&b, "    return %s\n", next)
		case 1:
			fmt.Fprintf(&b, "    return [L%d(big, q) for q in [n + 1]][0]\n", i+1)
		case 2:
			fmt.Fprintf(&b, "    return sorted([n + 1], key = lambda q: L%d(big, q))\n", i+1)
		case 3:
			fmt.Fprintf(&b, "    g = lambda q: %s\n    return g(n)\n", next)
		default:
			fmt.Fprintf(&b, "    x = stack(\"before call\", n) + 1\n    return t(n, %s)\n", next)
		}
	}
	b.WriteString("R = L0(False, 0)\n")
	tags = []string{"shared-program", "backtrace", "error-expected", fmt.Sprintf("shared:frames-%d", k), fmt.Sprintf("shared:lines-%d", total)}
	return Case{Bits: bits, Src: b.String(), Family: "shared-program"}, tags
}

// predeclaredNames is the set of names of the standard environment (for SourceProgramOptions).
var predeclaredNames = func() map[string]bool {
	m := map[string]bool{}
	for n := range newEnv(&hostState{}) {
		m[n] = true
	}
	return m
}()

func compileShared(c *Case) (*starlark.Program, error) {
	_, prog, err := starlark.SourceProgramOptions(sl.OptionsFromBits(c.Bits), "prog.star", c.Src, func(n string) bool { return predeclaredNames[n] })
	return prog, err
}

// spinBarrier releases n goroutines within a few nanoseconds of each other (no channel or mutex
// hand-off in between); goroutine g then waits g*stagger so that the first uses are spread over the
// window in which a lazily built table is incomplete.
type spinBarrier struct {
	arrived atomic.Int32
	n       int32
}

func (b *spinBarrier) wait() {
	b.arrived.Add(1)
	for i := 0; b.arrived.Load() < b.n; i++ {
		if i > 200000 {
			// oversubscribed machine: a participant has lost its CPU; stop burning ours while it arrives
			time.Sleep(50 * time.Microsecond)
		}
	}
}

func spinFor(d time.Duration) {
	if d <= 0 {
		return
	}
	for t0 := time.Now(); time.Since(t0) < d; {
	}
}

// runShared is one case of the arm: one program, `trials` fresh Programs, N goroutines each.
func runShared(c *driver.Ctx, r *rand.Rand, trials int) {
	cs, tags := sharedProgram(r)
	c.Note("shared-program arm:\n%s", driver.Truncate(cs.Src, 1500))
	initWith := func(prog *starlark.Program) func(*starlark.Thread, starlark.StringDict) (starlark.StringDict, error) {
		return func(th *starlark.Thread, env starlark.StringDict) (starlark.StringDict, error) {
			return prog.Init(th, env)
		}
	}
	// solo reference from a Program of its own
	refProg, err := compileShared(&cs)
	it := &item{c: cs, tags: tags}
	if err != nil {
		// not expected; still a record (static error), but nothing can be shared
		c.Count("shared_static_errors", 1)
		return
	}
	runtime.GOMAXPROCS(1)
	it.ref = executeWith(nil, initWith(refProg))
	it.refText = it.ref.Text()
	// the serialized form, from yet another Program
	encProg, err := compileShared(&cs)
	if err != nil {
		c.Inconclusive("second compilation of the same source failed: %v", err)
		return
	}
	var enc bytes.Buffer
	if err := encProg.Write(&enc); err != nil {
		c.Inconclusive("Program.Write failed: %v", err)
		return
	}
	runtime.GOMAXPROCS(goroutines)
	compared, ran := 0, 0
	var mu sync.Mutex
	for trial := 0; trial < trials; trial++ {
		ran++
		var prog *starlark.Program
		origin := "shared-compiled"
		if trial%16 == 0 {
			origin = "shared-source"
			prog, err = compileShared(&cs)
		} else {
			prog, err = starlark.CompiledProgram(bytes.NewReader(enc.Bytes()))
		}
		if err != nil {
			c.Inconclusive("cannot obtain a fresh Program (%s): %v", origin, err)
			return
		}
		stagger := []time.Duration{0, 0, 500 * time.Nanosecond, 2 * time.Microsecond, 5 * time.Microsecond, 10 * time.Microsecond, 20 * time.Microsecond}[r.Intn(7)]
		bar := &spinBarrier{n: goroutines}
		var wg sync.WaitGroup
		for g := 0; g < goroutines; g++ {
			wg.Add(1)
			go func(g int) {
				defer wg.Done()
				run := initWith(prog)
				bar.wait()
				spinFor(time.Duration(g) * stagger)
				rec := executeWith(nil, run)
				same := rec.Steps == it.ref.Steps && rec.Print == it.ref.Print && rec.Events == it.ref.Events && rec.Globals == it.ref.Globals && rec.Err == it.ref.Err
				mu.Lock()
				compared++
				if !same {
					it.diffs = append(it.diffs, diff{origin, rec})
				}
				mu.Unlock()
			}(g)
		}
		wg.Wait()
		c.Count("exec_"+strings.ReplaceAll(origin, "-", "_"), goroutines)
		if len(it.diffs) > 0 {
			break // one witness is enough; the remaining trials would only repeat it
		}
	}
	c.Count("shared_program_trials", ran)
	it.compared = compared
	c.Count("exec_reference", 1)
	c.Eval(1 + compared)
	c.Count("records_compared", compared)
	account(c, it)
	if len(it.diffs) > 0 {
		report(c, it)
	}
}
