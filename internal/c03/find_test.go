package c03

import (
	"math/rand"

	"go.starlark.net/starlark"

	"testing"
	"time"
)

func TestScreening(t *testing.T) {
	for _, src := range []string{
		"g = [1, 2]\nc = [0]\ndef f():\n    for i in range(1000000):\n        c[0] += 1\n        g.extend(g)\nf()\n",
		"x = [3]\ndef f():\n    for i in range(100000):\n        x[0] = x[0] * x[0] + 1\nf()\n",
		"s = ['ab']\ndef f():\n    for i in range(100000):\n        s[0] = s[0] + s[0]\nf()\n",
		"def f():\n    for i in range(1000000):\n        pass\nf()\n",
	} {
		t0 := time.Now()
		rec, alloc, heavy := executeScreened(&Case{Bits: 63, Src: src})
		t.Logf("heavy=%v allocated=%d MB in %v steps=%d err=%s", heavy, alloc>>20, time.Since(t0), rec.Steps, firstLine(rec.Err))
	}
}

func TestSharedPrograms(t *testing.T) {
	for i := 0; i < 40; i++ {
		c, _ := sharedProgram(rand.New(rand.NewSource(int64(i))))
		prog, err := compileShared(&c)
		if err != nil {
			t.Fatalf("seed %d: %v\n%s", i, err, c.Src[:300])
		}
		rec := executeWith(nil, func(th *starlark.Thread, env starlark.StringDict) (starlark.StringDict, error) {
			return prog.Init(th, env)
		})
		rec2 := execute(nil, &c)
		if rec.Text() != rec2.Text() {
			t.Errorf("seed %d: Init and ExecFile records differ", i)
		}
		if i < 6 {
			t.Logf("seed %d bits %d: steps %d\n%s\n%s", i, c.Bits, rec.Steps, rec.Events, rec.Err)
		}
	}
}
