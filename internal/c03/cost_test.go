package c03

import (
	"bytes"
	"fmt"
	"strings"
	"testing"
	"time"

	"go.starlark.net/starlark"
	"go.starlark.net/syntax"
)

func TestCost(t *testing.T) {
	for _, n := range []int{2000, 8000, 20000} {
		var sb strings.Builder
		sb.WriteString("def f(big):\n    if big:\n")
		for i := 0; i < n; i++ {
			fmt.Fprintf(&sb, "        a%d = %d\n", i%10, i)
		}
		sb.WriteString("    fail('boom')\nf(False)\n")
		src := sb.String()
		t0 := time.Now()
		_, prog, err := starlark.SourceProgramOptions(&syntax.FileOptions{}, "m.star", src, func(string) bool { return false })
		if err != nil {
			t.Fatal(err)
		}
		d1 := time.Since(t0)
		var buf bytes.Buffer
		prog.Write(&buf)
		t0 = time.Now()
		p2, err := starlark.CompiledProgram(bytes.NewReader(buf.Bytes()))
		d2 := time.Since(t0)
		t0 = time.Now()
		th := &starlark.Thread{}
		_, err = p2.Init(th, nil)
		d3 := time.Since(t0)
		t0 = time.Now()
		_, err = p2.Init(&starlark.Thread{}, nil)
		d4 := time.Since(t0)
		t.Logf("n=%d compile %v, encoded %d KB, decode %v, first init+error %v, second %v: %v", n, d1, buf.Len()>>10, d2, d3, d4, strings.ReplaceAll(err.(*starlark.EvalError).Backtrace(), "\n", " | "))
	}
}
