package c03

import (
	"fmt"
	"math/rand"
	"os"
	"sort"
	"strings"
	"testing"
)

// TestDirectedPrograms prints outcome statistics of the directed generator (a development aid).
func TestDirectedPrograms(t *testing.T) {
	stats := map[string]int{}
	shown := map[string]int{}
	dump := os.Getenv("C03_DUMP")
	for i := 0; i < 3000; i++ {
		r := rand.New(rand.NewSource(int64(i)))
		c, tags := directed(r)
		rec := execute(nil, &c)
		kind := "ok"
		switch {
		case rec.Err == "ok":
		case strings.HasPrefix(rec.Err, "evalerror:"):
			kind = "dynamic"
		case strings.HasPrefix(rec.Err, "PANIC"):
			kind = "PANIC"
		default:
			kind = "static"
		}
		exp := false
		for _, tg := range tags {
			if tg == "error-expected" {
				exp = true
			}
		}
		k := fmt.Sprintf("%-14s %-8s expected=%v", c.Family, kind, exp)
		stats[k]++
		if hasHint(&rec) {
			stats[fmt.Sprintf("%-14s hint", c.Family)]++
		}
		if hasListing(&rec) {
			stats[fmt.Sprintf("%-14s listing", c.Family)]++
		}
		if (kind != "ok" && !exp || kind == "PANIC") && shown[c.Family+kind] < 2 {
			shown[c.Family+kind]++
			t.Logf("---- %s %s (bits %d): %s\n%s", c.Family, kind, c.Bits, firstLine(strings.TrimPrefix(rec.Err, "evalerror: ")), rec.Err)
			if dump != "" {
				t.Logf("%s", c.Src)
			}
		}
		if dump == c.Family && shown["dump"+c.Family] < 2 {
			shown["dump"+c.Family]++
			t.Logf("==== %s\n%s\n%s", c.Family, c.Src, rec.Text())
		}
	}
	var ks []string
	for k := range stats {
		ks = append(ks, k)
	}
	sort.Strings(ks)
	for _, k := range ks {
		t.Logf("%-50s %d", k, stats[k])
	}
}

func TestHintMessages(t *testing.T) {
	seen := map[string]int{}
	for i := 0; i < 6000; i++ {
		r := rand.New(rand.NewSource(int64(i)))
		c, _ := directed(r)
		if c.Family != "hint" && c.Family != "backtrace" {
			continue
		}
		rec := execute(nil, &c)
		seen[c.Family+": "+firstLine(rec.Err)]++
	}
	var ks []string
	for k := range seen {
		ks = append(ks, k)
	}
	sort.Strings(ks)
	for _, k := range ks {
		t.Logf("%4d %s", seen[k], k)
	}
}

func TestGenOutcomes(t *testing.T) {
	stats := map[string]int{}
	r := rand.New(rand.NewSource(3))
	for k := 0; k < 10; k++ {
		for _, it := range buildBatch(r) {
			if it.c.Family != "gen" {
				continue
			}
			rec := execute(nil, &it.c)
			kind := "ok"
			switch {
			case rec.Err == "ok":
			case strings.HasPrefix(rec.Err, "evalerror:"):
				kind = "dynamic: " + firstLine(rec.Err)
				if len(kind) > 60 {
					kind = kind[:60]
				}
			default:
				kind = "static: " + firstLine(rec.Err)
			}
			stats[fmt.Sprintf("lbg=%v %s", it.c.Bits&16 != 0, kind)]++
			if hasListing(&rec) {
				stats["listing"]++
			}
			stats["total"]++
		}
	}
	var ks []string
	for k := range stats {
		ks = append(ks, k)
	}
	sort.Strings(ks)
	for _, k := range ks {
		t.Logf("%4d %s", stats[k], k)
	}
}
