package c03

import (
	"crypto/sha256"
	"encoding/hex"
	"fmt"
	"regexp"
	"runtime/metrics"
	"sort"
	"strings"
	"sync"
	"time"

	stime "go.starlark.net/lib/time"
	"go.starlark.net/resolve"
	"go.starlark.net/starlark"
	"go.starlark.net/starlarkstruct"
	"go.starlark.net/syntax"

	"verif/internal/canon"
	"verif/internal/sl"
)

// Case is one program with its dialect options; it is what travels to the helper processes.
type Case struct {
	Bits   int    `json:"bits"`
	Src    string `json:"src"`
	Family string `json:"family,omitempty"`
}

// Record is everything the property calls observable about one execution.
type Record struct {
	Print   string // Thread.Print transcript
	Events  string // host events t/tick/trace/load with canonical arguments, in order
	Globals string // canon.Globals of the returned globals (iteration order of every dict/set, attribute listings)
	Err     string // canon.Error: message (incl. hints), every frame, backtrace
	Steps   uint64 // Thread.ExecutionSteps() consumed by this execution
}

var componentNames = []string{"print", "events", "globals", "error", "steps"}

func (r *Record) component(i int) string {
	switch i {
	case 0:
		return r.Print
	case 1:
		return r.Events
	case 2:
		return r.Globals
	case 3:
		return r.Err
	}
	return fmt.Sprint(r.Steps)
}

// Text is the byte-for-byte compared form.
func (r *Record) Text() string {
	var b strings.Builder
	for i, n := range componentNames {
		fmt.Fprintf(&b, "== %s\n%s\n", n, r.component(i))
	}
	return b.String()
}

func hashText(s string) string {
	h := sha256.Sum256([]byte(s))
	return hex.EncodeToString(h[:12])
}

const stepLimit = 300000

// fixed clock: 2024-02-29T12:34:56.123456789Z plus one hour, one minute and one second per call within an execution.
var clockBase = time.Date(2024, time.February, 29, 12, 34, 56, 123456789, time.UTC)

// run state of one execution (host side).
type hostState struct {
	events strings.Builder
	prints strings.Builder
	ticks  int
	clock  int
}

func (h *hostState) now() (time.Time, error) {
	h.clock++
	return clockBase.Add(time.Duration(h.clock-1) * (time.Hour + time.Minute + time.Second)), nil
}

// ---- modules served by Thread.Load --------------------------------------------------------

const bigModuleSrc = `
alpha_beta = 1
alpha_bets = 2
alpha_bet0 = 3
gamma_delta_epsilon_zeta = "a name of twenty-four bytes"
gamma_delta_epsilon_zetb = "its neighbour"
Gamma_Delta = 5
gamma__delta = 6
x1 = 11
x2 = 12
x3 = 13
def mk(n):
    d = {}
    for i in range(n):
        d["module-made-key-%d-%s" % (i, "x" * (i % 5))] = i
    return d
table = {("frozen-table-key-%d" % i): [i, str(i)] for i in range(40)}
tset = ["k%d" % i for i in range(30)]
def thrower(x):
    return x.no_such_field_here
`

const badModuleSrc = `
def inner(v):
    return v // 0
def outer(v):
    return [inner(q) for q in [v]]
y = outer(7)
`

type moduleEntry struct {
	once sync.Once
	g    starlark.StringDict
	err  error
}

var moduleCache = map[string]*moduleEntry{"big.star": {}, "bad.star": {}, "m.star": {}}

// loadModule returns the (frozen, per-process cached) globals of a module. Modules are executed on
// a thread of their own, so their steps are not charged to the importing thread (a cache that
// charged a cold load to the first importer would make steps depend on history by the host's doing).
func loadModule(name string) (starlark.StringDict, error) {
	e := moduleCache[name]
	if e == nil {
		return nil, fmt.Errorf("no such module")
	}
	e.once.Do(func() {
		switch name {
		case "m.star":
			e.g = starlark.StringDict{"la": starlark.MakeInt(3), "lb": starlark.MakeInt(4)}
		case "big.star", "bad.star":
			src := bigModuleSrc
			if name == "bad.star" {
				src = badModuleSrc
			}
			th := &starlark.Thread{Name: "load " + name}
			th.SetMaxExecutionSteps(stepLimit)
			opts := &syntax.FileOptions{Set: true, TopLevelControl: true}
			pn := sl.Safe(func() {
				e.g, e.err = starlark.ExecFileOptions(opts, th, name, src, sl.StdModules())
			})
			if pn != nil {
				e.err = fmt.Errorf("panic: %v", pn.Value)
			}
			if e.err != nil {
				e.g = nil
			}
		}
	})
	return e.g, e.err
}

// ---- predeclared environment ---------------------------------------------------------------

// hostMembers is deliberately a Go map literal with names that are near neighbours of each other.
func hostMembers() starlark.StringDict {
	return starlark.StringDict{
		"version": starlark.String("1.2.3"), "versions": starlark.MakeInt(3), "version_": starlark.MakeInt(4),
		"path_join": starlark.String("pj"), "path_joint": starlark.String("pjt"), "path_joins": starlark.String("pjs"),
		"a_rather_long_member_name": starlark.MakeInt(1), "a_rather_long_member_nama": starlark.MakeInt(2),
		"a_rather_long_member_namb": starlark.MakeInt(3), "zeta": starlark.Float(0.5), "eta": starlark.None,
		"theta": starlark.True, "iota": starlark.Tuple{starlark.MakeInt(1), starlark.String("two")},
		"Kappa": starlark.String("K"), "kappa": starlark.String("k"), "k_appa": starlark.String("k_"),
		"limits": starlark.NewList([]starlark.Value{starlark.MakeInt(1), starlark.MakeInt(2)}),
	}
}

var bigKeys = func() []starlark.Value {
	var ks []starlark.Value
	for i := 0; i < 48; i++ {
		ks = append(ks, starlark.String(fmt.Sprintf("predeclared-key-%02d-%s", (i*29)%48, strings.Repeat("q", i%7))))
	}
	return ks
}()

func newEnv(h *hostState) starlark.StringDict {
	env := sl.StdModules()
	env["t"] = starlark.NewBuiltin("t", func(_ *starlark.Thread, _ *starlark.Builtin, args starlark.Tuple, kw []starlark.Tuple) (starlark.Value, error) {
		if len(args) != 2 || len(kw) != 0 {
			return nil, fmt.Errorf("t: want 2 positional arguments")
		}
		fmt.Fprintf(&h.events, "t %s %s\n", canon.ValueOpts(args[0], canon.Opts{}), canon.ValueOpts(args[1], canon.Opts{MaxNodes: 2000}))
		return args[1], nil
	})
	env["tick"] = starlark.NewBuiltin("tick", func(_ *starlark.Thread, _ *starlark.Builtin, args starlark.Tuple, kw []starlark.Tuple) (starlark.Value, error) {
		h.ticks++
		fmt.Fprintf(&h.events, "tick %d\n", h.ticks)
		return starlark.MakeInt(h.ticks), nil
	})
	env["trace"] = starlark.NewBuiltin("trace", func(_ *starlark.Thread, _ *starlark.Builtin, args starlark.Tuple, kw []starlark.Tuple) (starlark.Value, error) {
		h.events.WriteString("trace")
		for _, a := range args {
			h.events.WriteString(" " + canon.ValueOpts(a, canon.Opts{MaxNodes: 2000}))
		}
		for _, p := range kw {
			h.events.WriteString(" " + string(p[0].(starlark.String)) + "=" + canon.ValueOpts(p[1], canon.Opts{MaxNodes: 2000}))
		}
		h.events.WriteString("\n")
		return starlark.None, nil
	})
	// stack(label…) records the call stack the host sees (every frame with its position) and returns its depth
	env["stack"] = starlark.NewBuiltin("stack", func(th *starlark.Thread, _ *starlark.Builtin, args starlark.Tuple, kw []starlark.Tuple) (starlark.Value, error) {
		h.events.WriteString("stack")
		for _, a := range args {
			h.events.WriteString(" " + canon.ValueOpts(a, canon.Opts{MaxNodes: 200}))
		}
		h.events.WriteString(":")
		cs := th.CallStack()
		for _, fr := range cs {
			fmt.Fprintf(&h.events, " %s@%s:%d:%d", fr.Name, fr.Pos.Filename(), fr.Pos.Line, fr.Pos.Col)
		}
		fmt.Fprintf(&h.events, " | caller %s\n", th.CallFrame(1).Pos)
		return starlark.MakeInt(len(cs)), nil
	})
	env["module"] = starlark.NewBuiltin("module", starlarkstruct.MakeModule)
	env["host"] = &starlarkstruct.Module{Name: "host", Members: hostMembers()}
	env["hs"] = starlarkstruct.FromStringDict(starlarkstruct.Default, hostMembers())
	env["hk"] = starlarkstruct.FromKeywords(starlark.String("point"), []starlark.Tuple{
		{starlark.String("y_coordinate_value"), starlark.MakeInt(2)}, {starlark.String("x_coordinate_value"), starlark.MakeInt(1)},
		{starlark.String("z"), starlark.MakeInt(3)}, {starlark.String("label"), starlark.String("p")},
	})
	big := starlark.NewDict(64)
	for i, k := range bigKeys {
		big.SetKey(k, starlark.MakeInt(i))
	}
	env["big"] = big
	return env
}

// errorText is canon.Error plus, for static error lists, every entry (canon prints only Error()).
func errorText(err error) string {
	s := canon.Error(err)
	switch e := err.(type) {
	case resolve.ErrorList:
		for _, x := range e {
			s += fmt.Sprintf("\n  resolve %s: %s", x.Pos, x.Msg)
		}
	case syntax.Error:
		s += fmt.Sprintf("\n  syntax %s: %s", e.Pos, e.Msg)
	}
	return s
}

// execute runs the program once from source. th == nil means a fresh thread; a reused thread keeps
// whatever the earlier executions left in it (step counter, locals), and the steps are reported as a delta.
func execute(th *starlark.Thread, c *Case) Record {
	return executeWith(th, func(th *starlark.Thread, env starlark.StringDict) (starlark.StringDict, error) {
		return starlark.ExecFileOptions(sl.OptionsFromBits(c.Bits), th, "prog.star", c.Src, env)
	})
}

// executeWith runs one execution (ExecFileOptions of a source text, or Init of a compiled Program)
// on the given or a fresh thread with a fresh standard environment and returns its Record.
func executeWith(th *starlark.Thread, run func(*starlark.Thread, starlark.StringDict) (starlark.StringDict, error)) Record {
	h := &hostState{}
	if th == nil {
		th = &starlark.Thread{Name: "c03"}
	} else {
		th.Uncancel() // a step-limit cancellation of the previous execution is sticky by design
	}
	th.Print = func(_ *starlark.Thread, msg string) {
		h.prints.WriteString(msg)
		h.prints.WriteByte('\n')
	}
	th.Load = func(_ *starlark.Thread, module string) (starlark.StringDict, error) {
		fmt.Fprintf(&h.events, "load %s\n", module)
		return loadModule(module)
	}
	stime.SetNow(th, h.now)
	before := th.ExecutionSteps()
	th.SetMaxExecutionSteps(before + stepLimit)
	var g starlark.StringDict
	var err error
	pn := sl.Safe(func() {
		g, err = run(th, newEnv(h))
	})
	rec := Record{Print: h.prints.String(), Events: h.events.String(), Steps: th.ExecutionSteps() - before}
	if pn != nil {
		// a Go panic is C02's business; here it is just an outcome that must be the same every time
		rec.Err = "PANIC " + pn.String() + " at " + pn.TopFrame()
		return rec
	}
	rec.Globals = canon.Globals(g)
	rec.Err = errorText(err)
	return rec
}

// ---- screening of runaway programs -----------------------------------------------------------

// The shared generator can produce loops that double a list or a big integer at every iteration
// (x.extend(x) in a loop whose counter is reset): such a program exhausts memory long before the
// step limit ends it. The reference execution of every program therefore runs under a guard: at
// every 16th instruction start (a deterministic point) the cumulative number of bytes allocated by
// the process is read; a program that has allocated more than heavyBytes is abandoned and excluded
// from the batch before it is sent anywhere. Only the engine's main goroutine runs during
// screening, so the figure is a function of the program.
const heavyBytes = 32 << 20

type abortHeavy struct{}

var guard struct {
	steps   int
	base    uint64
	tripped bool
	sample  [1]metrics.Sample
}

func allocatedBytes() uint64 {
	guard.sample[0].Name = "/gc/heap/allocs:bytes"
	metrics.Read(guard.sample[:])
	if guard.sample[0].Value.Kind() != metrics.KindUint64 {
		return 0
	}
	return guard.sample[0].Value.Uint64()
}

func guardHook(_ *starlark.Thread, _ *starlark.Function, _ uint32, _ uint8) {
	guard.steps++
	if guard.steps&15 != 0 {
		return
	}
	if allocatedBytes()-guard.base > heavyBytes {
		guard.tripped = true
		panic(abortHeavy{})
	}
}

// executeScreened is execute(nil, c) under the guard; heavy reports that the program was abandoned.
func executeScreened(c *Case) (rec Record, allocated uint64, heavy bool) {
	guard.steps, guard.tripped, guard.base = 0, false, allocatedBytes()
	starlark.VerifStepHook = guardHook
	rec = execute(nil, c)
	starlark.VerifStepHook = nil
	return rec, allocatedBytes() - guard.base, guard.tripped
}

// ---- classification of records --------------------------------------------------------------

var listingRE = regexp.MustCompile(`(dict|set)#\d+\{[^{}]*, |struct#\d+\([^{}]*\)\{[^{}]*, `)

// hasListing reports whether the record contains an unordered-collection listing with at least two
// elements (dict, set or struct reachable from globals or passed to a host function).
func hasListing(r *Record) bool {
	return listingRE.MatchString(r.Globals) || listingRE.MatchString(r.Events)
}

func hasHint(r *Record) bool { return strings.Contains(r.Err, "did you mean") }

// sameBytes reports whether a and b are permutations of each other at line+token level: used only to
// name the kind of difference (order vs value) in the violation key.
func sameTokens(a, b string) bool {
	if len(a) != len(b) {
		return false
	}
	split := func(s string) []string {
		f := strings.FieldsFunc(s, func(r rune) bool {
			return r == ',' || r == ' ' || r == '\n' || r == '{' || r == '}' || r == '[' || r == ']' || r == '(' || r == ')'
		})
		sort.Strings(f)
		return f
	}
	x, y := split(a), split(b)
	if len(x) != len(y) {
		return false
	}
	for i := range x {
		if x[i] != y[i] {
			return false
		}
	}
	return true
}

// diffClass names the first differing component of two records.
func diffClass(a, b *Record) string {
	for i, n := range componentNames {
		x, y := a.component(i), b.component(i)
		if x == y {
			continue
		}
		switch n {
		case "print":
			if sameTokens(x, y) {
				return "print-order"
			}
			return "print-value"
		case "events":
			if sameTokens(x, y) {
				return "events-order"
			}
			return "events-value"
		case "globals":
			if sameTokens(x, y) {
				return "globals-iteration-order"
			}
			return "globals-value"
		case "error":
			if strings.Contains(x, "did you mean") || strings.Contains(y, "did you mean") {
				xl, yl := firstLine(x), firstLine(y)
				if xl != yl {
					return "error-hint"
				}
			}
			if firstLine(x) != firstLine(y) {
				return "error-message"
			}
			return "error-backtrace"
		default:
			return "steps"
		}
	}
	return "none"
}

func firstLine(s string) string {
	if i := strings.IndexByte(s, '\n'); i >= 0 {
		return s[:i]
	}
	return s
}
