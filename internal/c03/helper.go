package c03

import (
	"bufio"
	"bytes"
	"encoding/json"
	"fmt"
	"os"
	"os/exec"
	"runtime"

	"verif/internal/driver"
)

// helperIn / helperOut are the JSON lines exchanged with a "c03-records" helper process.
// Texts travel as []byte (base64 in JSON): encoding/json would replace invalid UTF-8 in strings.
type helperIn struct {
	I    int    `json:"i"`
	Bits int    `json:"bits"`
	Src  []byte `json:"src"`
}

type helperOut struct {
	I       int    `json:"i"`
	Hash    string `json:"hash"` // hash of the record text
	Text    []byte `json:"text"` // the record text (all components)
	Print   []byte `json:"print"`
	Events  []byte `json:"events"`
	Globals []byte `json:"globals"`
	Err     []byte `json:"err"`
	Steps   uint64 `json:"steps"`
}

func init() {
	driver.RegisterHelper("c03-records", helperMain)
}

// helperMain executes every case read from stdin on a fresh thread, in the order given, and writes
// one line per case. It runs in a process of its own: new maphash seed, new address space layout,
// cold caches.
func helperMain(args []string) {
	runtime.GOMAXPROCS(1)
	in := bufio.NewReaderSize(os.Stdin, 1<<20)
	out := bufio.NewWriterSize(os.Stdout, 1<<20)
	dec := json.NewDecoder(in)
	enc := json.NewEncoder(out)
	for dec.More() {
		var hi helperIn
		if err := dec.Decode(&hi); err != nil {
			fmt.Fprintf(os.Stderr, "c03-records: bad input: %v\n", err)
			os.Exit(3)
		}
		rec := execute(nil, &Case{Bits: hi.Bits, Src: string(hi.Src)})
		text := rec.Text()
		ho := helperOut{I: hi.I, Hash: hashText(text), Text: []byte(text), Print: []byte(rec.Print), Events: []byte(rec.Events),
			Globals: []byte(rec.Globals), Err: []byte(rec.Err), Steps: rec.Steps}
		if err := enc.Encode(&ho); err != nil {
			fmt.Fprintf(os.Stderr, "c03-records: %v\n", err)
			os.Exit(3)
		}
	}
	out.Flush()
}

// spawnHelper runs one helper process over the cases in the given order and returns the records by
// case index.
func spawnHelper(cases []Case, order []int) ([]Record, error) {
	var stdin bytes.Buffer
	enc := json.NewEncoder(&stdin)
	for _, i := range order {
		enc.Encode(&helperIn{I: i, Bits: cases[i].Bits, Src: []byte(cases[i].Src)})
	}
	cmd := exec.Command(driver.SelfExe(), "helper", "c03-records")
	cmd.Stdin = &stdin
	var stdout, stderr bytes.Buffer
	cmd.Stdout = &stdout
	cmd.Stderr = &stderr
	cmd.Env = os.Environ()
	if err := cmd.Run(); err != nil {
		return nil, fmt.Errorf("helper process: %v; stderr: %s", err, driver.Truncate(stderr.String(), 600))
	}
	recs := make([]Record, len(cases))
	seen := make([]bool, len(cases))
	dec := json.NewDecoder(&stdout)
	n := 0
	for dec.More() {
		var ho helperOut
		if err := dec.Decode(&ho); err != nil {
			return nil, fmt.Errorf("helper output: %v", err)
		}
		if ho.I < 0 || ho.I >= len(cases) || seen[ho.I] {
			return nil, fmt.Errorf("helper output: bad index %d", ho.I)
		}
		rec := Record{Print: string(ho.Print), Events: string(ho.Events), Globals: string(ho.Globals), Err: string(ho.Err), Steps: ho.Steps}
		if rec.Text() != string(ho.Text) || hashText(string(ho.Text)) != ho.Hash {
			return nil, fmt.Errorf("helper output: record %d inconsistent with its text/hash", ho.I)
		}
		seen[ho.I] = true
		recs[ho.I] = rec
		n++
	}
	if n != len(cases) {
		return nil, fmt.Errorf("helper returned %d of %d records; stderr: %s", n, len(cases), driver.Truncate(stderr.String(), 600))
	}
	return recs, nil
}
