package c17

import (
	"fmt"
	"os"
	"path/filepath"
	"sort"
	"strings"
)

type chunk struct {
	name string // file#index
	file string
	src  string
}

// loadCorpus splits the repository's Starlark test files into their "---"-separated chunks.
// Chunks that do not compile under the corpus environment simply count as static errors.
func loadCorpus() []chunk {
	var files []string
	for _, pat := range []string{"/repo/starlark/testdata/*.star", "/repo/syntax/testdata/*.star", "/repo/resolve/testdata/*.star", "/repo/starlarktest/*.star", "/repo/lib/*/testdata/*.star"} {
		m, _ := filepath.Glob(pat)
		files = append(files, m...)
	}
	sort.Strings(files)
	var out []chunk
	for _, f := range files {
		data, err := os.ReadFile(f)
		if err != nil {
			continue
		}
		base := strings.TrimPrefix(f, "/repo/")
		parts := strings.Split(string(data), "\n---\n")
		line := 0
		for i, p := range parts {
			// keep the original line numbers: prefix the chunk with as many newlines as precede it
			src := strings.Repeat("\n", line) + p
			line += strings.Count(p, "\n") + 2
			if strings.TrimSpace(p) == "" {
				continue
			}
			out = append(out, chunk{name: fmt.Sprintf("%s#%d", base, i), file: base, src: src})
		}
	}
	return out
}
