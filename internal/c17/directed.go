package c17

import (
	"fmt"
	"math"
	"math/big"
	"math/rand"
	"strconv"
	"strings"

	"verif/internal/sl"
)

// prog assembles a directed program from fragments. Every fragment uses its own name prefix, never
// rebinds a global, and needs no dialect option, so the result is valid under all 64 option vectors.
type prog struct {
	r      *rand.Rand
	doc    string // module docstring statement ("" = none)
	loads  []string
	body   strings.Builder
	tail   string // statements executed last (may fail)
	feats  []string
	n      int
	usedLa bool
	big    bool // thorough tier: allow larger sizes
	patch  bool // some literal is a nonUTF8Literal
}

func (p *prog) px() string { p.n++; return fmt.Sprintf("d%d", p.n) }

func (p *prog) f(format string, args ...any) { fmt.Fprintf(&p.body, format, args...) }

func (p *prog) feat(s string) { p.feats = append(p.feats, "dir:"+s) }

func (p *prog) chance(x float64) bool { return p.r.Float64() < x }

func (p *prog) text() string {
	var b strings.Builder
	b.WriteString(p.doc)
	for _, l := range p.loads {
		b.WriteString(l)
	}
	b.WriteString(p.body.String())
	b.WriteString(p.tail)
	return b.String()
}

// ---- literal pools ----

func pow2(k uint) *big.Int { return new(big.Int).Lsh(big.NewInt(1), k) }

func intSpell(r *rand.Rand, v *big.Int) string {
	neg := v.Sign() < 0
	a := new(big.Int).Abs(v)
	var s string
	switch r.Intn(5) {
	case 0:
		s = "0x" + a.Text(16)
	case 1:
		s = "0X" + strings.ToUpper(a.Text(16))
	case 2:
		if a.BitLen() < 62 {
			s = "0o" + a.Text(8)
		} else {
			s = a.Text(10)
		}
	case 3:
		if a.BitLen() < 62 {
			s = "0b" + a.Text(2)
		} else {
			s = a.Text(10)
		}
	default:
		s = a.Text(10)
	}
	if neg {
		return "-" + s
	}
	return s
}

var intSpecials = func() []*big.Int {
	var l []*big.Int
	add := func(b *big.Int) { l = append(l, b, new(big.Int).Neg(b)) }
	for _, k := range []uint{0, 1, 6, 7, 8, 13, 14, 15, 16, 31, 32, 53, 62, 63, 64, 65, 127, 128, 200, 1000} {
		p := pow2(k)
		add(p)
		add(new(big.Int).Sub(p, big.NewInt(1)))
		add(new(big.Int).Add(p, big.NewInt(1)))
	}
	l = append(l, big.NewInt(0))
	return l
}()

func randInt(r *rand.Rand) *big.Int {
	switch r.Intn(6) {
	case 0, 1:
		return intSpecials[r.Intn(len(intSpecials))]
	case 2:
		v := big.NewInt(r.Int63())
		if r.Intn(2) == 0 {
			v.Neg(v)
		}
		return v
	case 3:
		return big.NewInt(int64(r.Intn(1 << uint(1+r.Intn(30)))))
	default:
		bits := 64 + r.Intn(300)
		if r.Intn(8) == 0 {
			bits = 1000 + r.Intn(4000)
		}
		v := new(big.Int).Rand(r, pow2(uint(bits)))
		v.SetBit(v, bits-1, 1)
		if r.Intn(3) == 0 {
			v.Neg(v)
		}
		return v
	}
}

var floatSpecials = []string{
	"0.0", "-0.0", "1.0", "0.1", "0.2", "0.30000000000000004", "1e308", "1.7976931348623157e308", "5e-324", "4.9406564584124654e-324",
	"2.2250738585072014e-308", "2.225073858507201e-308", "1e-7", "123456789.123456789", "3.0", "1e22", "1e23", "9007199254740993.0",
	".5", "5.", "1E5", "1e+5", "0e0", "1e-400", "3.4028234663852886e38", "3.4028235677973366e38", "1.401298464324817e-45", "16777217.0",
	"-1.5", "-1e308", "-5e-324", "0.1e1", "00.5", "1e0",
}

func randFloat(r *rand.Rand) string {
	if r.Intn(2) == 0 {
		return floatSpecials[r.Intn(len(floatSpecials))]
	}
	for {
		f := math.Float64frombits(r.Uint64())
		if math.IsNaN(f) || math.IsInf(f, 0) {
			continue
		}
		var s string
		if r.Intn(2) == 0 {
			s = strconv.FormatFloat(f, 'g', -1, 64)
		} else {
			s = strconv.FormatFloat(f, 'e', -1, 64)
		}
		if !strings.ContainsAny(s, ".e") {
			s += ".0"
		}
		return s
	}
}

func longText(n int) string {
	const alpha = "abcdefghijklmnopqrstuvwxyz0123456789 _-"
	var b strings.Builder
	b.Grow(n)
	for b.Len() < n {
		k := n - b.Len()
		if k > len(alpha) {
			k = len(alpha)
		}
		b.WriteString(alpha[:k])
	}
	return b.String()
}

var longSizes = []int{100, 127, 128, 8191, 8192, 16383, 16384, 16385, 65535, 65536, 70001}

// rawBytes returns n random bytes >= 0x80 (invalid or valid UTF-8 by chance) safe inside any quotes.
func rawHigh(r *rand.Rand, n int) string {
	b := make([]byte, n)
	for i := range b {
		b[i] = byte(0x80 + r.Intn(0x80))
	}
	return string(b)
}

// strLiteral returns the source text of a string literal.
func strLiteral(p *prog) string {
	r := p.r
	switch r.Intn(13) {
	case 0:
		return []string{`""`, `''`, `""""""`, `''''''`, `r""`}[r.Intn(5)]
	case 1:
		p.feat("str-non-utf8")
		p.patch = true
		return nonUTF8Literal("a\xff\xfeb")
	case 2:
		if r.Intn(2) == 0 {
			p.feat("str-non-utf8")
			p.patch = true
			return nonUTF8Literal(rawHigh(r, 1+r.Intn(20)))
		}
		p.feat("str-raw-invalid-bytes-in-source")
		return "'" + rawHigh(r, 1+r.Intn(20)) + "'"
	case 3:
		if r.Intn(2) == 0 {
			p.feat("str-all-256-byte-values")
			p.patch = true
			all := make([]byte, 256)
			for i := range all {
				all[i] = byte(i)
			}
			return nonUTF8Literal(string(all))
		}
		p.feat("str-all-bytes-raw-in-source")
		var b strings.Builder
		b.WriteString(`"\x00`)
		for i := 1; i < 256; i++ {
			switch byte(i) {
			case '"', '\\':
				b.WriteByte('\\')
				b.WriteByte(byte(i))
			case '\n':
				b.WriteString(`\n`)
			case '\r':
				b.WriteString(`\r`)
			default:
				b.WriteByte(byte(i))
			}
		}
		b.WriteString(`"`)
		return b.String()
	case 4:
		p.feat("str-escapes")
		return `"\a\b\f\n\r\t\v\\\'\"\x00\x7f\0\177é世\U0001F600"`
	case 5:
		p.feat("str-utf8")
		return `"héllo ✓ 世界 😀 ` + fmt.Sprint(r.Intn(1000)) + `"`
	case 6:
		n := longSizes[r.Intn(len(longSizes))]
		if p.big && r.Intn(20) == 0 {
			n = 1<<20 + r.Intn(3)
		}
		p.feat("str-long")
		return `"` + longText(n) + `"`
	case 7:
		p.feat("str-triple")
		return "\"\"\"multi\n  line 'q' \"dq\" é\n\tend " + fmt.Sprint(r.Intn(100)) + "\"\"\""
	case 8:
		p.feat("str-raw")
		return `r"raw\n\x\q` + fmt.Sprint(r.Intn(100)) + `"`
	case 9:
		p.feat("str-folded")
		parts := []string{`"fo"`, `'ld'`, `"é"`, `"` + longText(1+r.Intn(300)) + `"`, "\"\xfe\"", `""`}
		n := 2 + r.Intn(5)
		var l []string
		for i := 0; i < n; i++ {
			l = append(l, parts[r.Intn(len(parts))])
		}
		return "(" + strings.Join(l, " + ") + ")"
	case 10:
		return fmt.Sprintf(`"s%d"`, r.Intn(5))
	case 11:
		return `"` + longText(r.Intn(400)) + `"`
	default:
		// same text as common names / attribute names
		return []string{`"append"`, `"t"`, `"la"`, `"upper"`, `"d1_x"`}[r.Intn(5)]
	}
}

func bytesLiteral(p *prog) string {
	r := p.r
	switch r.Intn(9) {
	case 0:
		return []string{`b""`, `b''`, `rb""`, `b""""""`}[r.Intn(4)]
	case 1:
		p.feat("bytes-all-256")
		var b strings.Builder
		b.WriteString(`b"`)
		for i := 0; i < 256; i++ {
			if r.Intn(2) == 0 {
				fmt.Fprintf(&b, `\x%02x`, i)
			} else {
				fmt.Fprintf(&b, `\%03o`, i)
			}
		}
		b.WriteString(`"`)
		return b.String()
	case 2:
		return `b"\xff\xfe"`
	case 3:
		var b strings.Builder
		b.WriteString(`b'`)
		for i, n := 0, 1+r.Intn(40); i < n; i++ {
			fmt.Fprintf(&b, `\x%02x`, r.Intn(256))
		}
		b.WriteString(`'`)
		return b.String()
	case 4:
		p.feat("bytes-utf8-text")
		return `b"héllo ✓ 世界"`
	case 5:
		n := longSizes[r.Intn(len(longSizes))]
		p.feat("bytes-long")
		return `b"` + longText(n) + `"`
	case 6:
		p.feat("bytes-folded")
		return `(b"a" + b"\xff" + b"c` + fmt.Sprint(r.Intn(10)) + `" + b"")`
	case 7:
		return `rb"raw\x\n"`
	default:
		// same content as a string constant elsewhere
		return fmt.Sprintf(`b"s%d"`, r.Intn(5))
	}
}

// constLiteral returns a constant expression of a random kind.
func constLiteral(p *prog) string {
	r := p.r
	switch r.Intn(9) {
	case 0, 1:
		return intSpell(r, randInt(r))
	case 2:
		return randFloat(r)
	case 3, 4:
		return strLiteral(p)
	case 5:
		return bytesLiteral(p)
	case 6:
		return []string{"None", "True", "False"}[r.Intn(3)]
	case 7:
		return "(" + intSpell(r, randInt(r)) + ", " + strLiteral(p) + ", " + randFloat(r) + ")"
	default:
		return "[" + bytesLiteral(p) + ", {" + strLiteral(p) + ": " + intSpell(r, randInt(r)) + "}]"
	}
}

// ---- fragments ----

func rInts(p *prog) {
	px := p.px()
	p.feat("ints")
	n := 3 + p.r.Intn(25)
	var lits []string
	for i := 0; i < n; i++ {
		lits = append(lits, intSpell(p.r, randInt(p.r)))
	}
	p.f("%s_i = [%s]\n", px, strings.Join(lits, ", "))
	p.f("%s_s = [str(x) for x in %s_i]\n", px, px)
	p.f("trace(%s_i, %s_s, [x + 1 for x in %s_i], [x * x - x for x in %s_i], [x >> 3 for x in %s_i], [x %% 1000003 for x in %s_i], [-x for x in %s_i])\n", px, px, px, px, px, px, px)
	p.f("def %s_f(a=%s, b=%s, *, k=%s):\n    return (a, b, k, a + b - k)\n", px, intSpell(p.r, randInt(p.r)), intSpell(p.r, randInt(p.r)), intSpell(p.r, randInt(p.r)))
	p.f("%s_r = t(1, %s_f)()\n", px, px)
	p.f("%s_d = {%s: \"min\", %s: \"max\", %s: \"big\"}\n", px, "-0x7fffffffffffffff - 1", "9223372036854775807", "18446744073709551616")
	p.f("print(%s_r, %s_d)\n", px, px)
}

func rFloats(p *prog) {
	px := p.px()
	p.feat("floats")
	n := 3 + p.r.Intn(25)
	var lits []string
	for i := 0; i < n; i++ {
		lits = append(lits, randFloat(p.r))
	}
	p.f("%s_x = [%s]\n", px, strings.Join(lits, ", "))
	p.f("%s_s = [str(x) for x in %s_x]\n", px, px)
	p.f("trace(%s_x, %s_s, [x + 1.0 for x in %s_x], [x * 0.5 for x in %s_x], [-x for x in %s_x], [x == x for x in %s_x], 0.1 + 0.2)\n", px, px, px, px, px, px)
	p.f("def %s_f(a=%s, b=-0.0, *, k=%s):\n    return (a, b, k, a * 2)\n", px, randFloat(p.r), randFloat(p.r))
	p.f("%s_r = t(2, %s_f)()\n", px, px)
	p.f("print(%s_r)\n", px)
}

func rStrings(p *prog) {
	px := p.px()
	p.feat("strings")
	n := 2 + p.r.Intn(10)
	var lits []string
	for i := 0; i < n; i++ {
		lits = append(lits, strLiteral(p))
	}
	p.f("%s_s = [%s]\n", px, strings.Join(lits, ", "))
	p.f("trace([len(x) for x in %s_s], [type(x) for x in %s_s], [x[:3] for x in %s_s], [x[-2:] + \"x\" for x in %s_s], [list(x.elems())[:5] for x in %s_s], [hash(x) for x in %s_s])\n", px, px, px, px, px, px)
	p.f("%s_m = {%s: 1, %s: 2}\n", px, strLiteral(p), bytesLiteral(p))
	p.f("def %s_f(a=%s, *, k=%s):\n    return (a, k, a + k)\n", px, strLiteral(p), strLiteral(p))
	p.f("%s_r = t(3, %s_f)()\n", px, px)
	p.f("print(%s_s[0][:50], %s_r[2][:50])\n", px, px)
}

func rBytes(p *prog) {
	px := p.px()
	p.feat("bytes")
	n := 2 + p.r.Intn(10)
	var lits []string
	for i := 0; i < n; i++ {
		lits = append(lits, bytesLiteral(p))
	}
	p.f("%s_b = [%s]\n", px, strings.Join(lits, ", "))
	p.f("trace(%s_b, [len(x) for x in %s_b], [type(x) for x in %s_b], [x[:1] for x in %s_b], [list(x.elems())[:4] for x in %s_b], [str(x)[:40] for x in %s_b], [hash(x) for x in %s_b])\n", px, px, px, px, px, px, px)
	// a bytes and a string constant with identical content must stay distinct kinds
	p.f("%s_k = [b\"same\", \"same\", b\"same\" == \"same\", type(b\"same\"), type(\"same\"), {b\"same\": 1, \"same\": 2}]\n", px)
	p.f("def %s_f(a=%s, *, k=%s):\n    return (a, k, a + k)\n", px, bytesLiteral(p), bytesLiteral(p))
	p.f("%s_r = t(4, %s_f)()\n", px, px)
	p.f("trace(%s_k)\n", px)
}

func docLiteral(p *prog) string {
	r := p.r
	switch r.Intn(9) {
	case 0:
		return `"""Doc of a function.` + "\n\n    Args:\n      a: é 世界 😀\n    " + `"""`
	case 1:
		return `'single quoted doc'`
	case 2:
		return `""`
	case 3:
		p.feat("doc-non-utf8")
		p.patch = true
		return nonUTF8Literal("non-utf8 \xff\xfe doc \xc3")
	case 4:
		return `"` + longText(longSizes[r.Intn(len(longSizes))]) + `"`
	case 5:
		return `r"raw \doc\n"`
	case 6:
		return `"doc with escapes \n\t\x00é end"`
	case 7:
		return `"""` + strings.Repeat("line of documentation\n    ", 1+r.Intn(200)) + `"""`
	default:
		return fmt.Sprintf(`"doc %d"`, r.Intn(1000))
	}
}

func rDocs(p *prog) {
	px := p.px()
	p.feat("docstrings")
	p.f("def %s_f0(a, b=1):\n    %s\n    return a\n", px, docLiteral(p))
	p.f("def %s_f1():\n    %s\n", px, docLiteral(p))
	p.f("def %s_f2():\n    %s\n    def inner(q=2):\n        %s\n        return t(5, q)\n    return inner\n", px, docLiteral(p), docLiteral(p))
	p.f("%s_in = %s_f2()\n", px, px)
	p.f("%s_l = lambda: \"not a doc\"\n", px)
	p.f("def %s_f3():\n    x = 1\n    \"not a doc either\"\n    return x\n", px)
	p.f("def %s_f4(): %s\n", px, docLiteral(p))
	p.f("def %s_f5():\n    b\"bytes are not docs\"\n    return 0\n", px)
	p.f("def %s_f6():\n    \"folded \" + \"is not a doc\"\n    return 0\n", px)
	p.f("def %s_f7():\n    (\"parenthesised\")\n    return trace(7)\n", px)
	p.f("%s_v = [%s_f0(1), %s_f1(), %s_in(), %s_l(), %s_f3(), %s_f4(), %s_f5(), %s_f6(), %s_f7()]\n", px, px, px, px, px, px, px, px, px, px)
	p.f("trace(%s_v)\n", px)
	if p.doc == "" && p.chance(0.7) {
		p.doc = docLiteral(p) + "\n"
		p.feat("module-docstring")
	}
}

// rMany emits n distinct constants of one kind.
func rMany(p *prog, kind string, n int) {
	px := p.px()
	p.feat("many-" + kind + "-" + class(int64(n)))
	base := p.r.Intn(1000)
	var b strings.Builder
	per := 10000 // elements per list literal (bounds the operand stack)
	if p.chance(0.3) {
		per = n
	}
	nl := 0
	for i := 0; i < n; i++ {
		if i%per == 0 {
			if i > 0 {
				b.WriteString("]\n")
			}
			fmt.Fprintf(&b, "%s_m%d = [", px, nl)
			nl++
		}
		switch kind {
		case "int":
			fmt.Fprintf(&b, "%d,", 100000+base+i*7)
		case "str":
			fmt.Fprintf(&b, "\"s%d_%d\",", base, i)
		case "float":
			fmt.Fprintf(&b, "%d.5,", base+i)
		case "bigint":
			fmt.Fprintf(&b, "%d%019d,", 1+base, i)
		case "bytes":
			fmt.Fprintf(&b, "b\"b%d_%d\",", base, i)
		}
		if i%20 == 19 {
			b.WriteString("\n  ")
		}
	}
	b.WriteString("]\n")
	p.body.WriteString(b.String())
	for j := 0; j < nl; j++ {
		p.f("trace(len(%s_m%d), %s_m%d[0], %s_m%d[-1], %s_m%d[len(%s_m%d) // 2])\n", px, j, px, j, px, j, px, j, px, j)
	}
}

func seq(n int, f func(i int) string, sep string) string {
	var b strings.Builder
	for i := 0; i < n; i++ {
		if i > 0 {
			b.WriteString(sep)
		}
		b.WriteString(f(i))
	}
	return b.String()
}

func rWideGlobals(p *prog, w int) {
	px := p.px()
	p.feat("wide-globals-" + class(int64(w)))
	for i := 0; i < w; i++ {
		p.f("%s_g%d = %d\n", px, i, i%50)
	}
	p.f("trace(%s_g0 + %s_g%d, %s_g%d, %s_g%d)\n", px, px, w-1, px, w/2, px, w-1)
	p.f("def %s_rd():\n    return [%s_g%d, %s_g%d, %s_g%d]\n", px, px, w-1, px, w/3, px, 1)
	p.f("trace(%s_rd())\n", px)
}

func rWideLocals(p *prog, w int, cells int) {
	px := p.px()
	p.feat("wide-locals-" + class(int64(w)))
	p.f("def %s_f(a):\n", px)
	for i := 0; i < w; i++ {
		p.f("    v%d = a + %d\n", i, i)
	}
	if cells > w {
		cells = w
	}
	if cells > 0 {
		p.feat("wide-cells-" + class(int64(cells)))
		// every second captured variable, in reverse order of declaration
		p.f("    def inner(k):\n        return [%s][k]\n", seq(cells, func(i int) string { return fmt.Sprintf("v%d", w-1-i*(w/cells)) }, ", "))
		p.f("    v0 += 1\n")
		p.f("    return (inner, t(6, v%d) + v%d)\n", w-1, w/2)
	} else {
		p.f("    return (None, t(6, v%d) + v%d)\n", w-1, w/2)
	}
	p.f("%s_r = %s_f(1)\n", px, px)
	if cells > 0 {
		p.f("trace(%s_r[1], %s_r[0](0), %s_r[0](%d))\n", px, px, px, cells-1)
	} else {
		p.f("trace(%s_r[1])\n", px)
	}
}

func rNames(p *prog, nattr int) {
	px := p.px()
	p.feat("wide-names-" + class(int64(NHostInts+nattr)))
	p.f("%s_h = [%s]\n", px, seq(NHostInts, hostIntName, ", "))
	p.f("def %s_u(x):\n    return [%s]\n", px, seq(nattr, func(i int) string { return fmt.Sprintf("x.n%d", i) }, ",\n      "))
	p.f("def %s_a(x):\n    return [x.a0, x.a1, x.name, \"%%s\".format, [].append, {}.get, \"\".upper]\n", px)
	p.f("trace(%s_h[0], %s_h[-1], len(%s_h), %s_a(hobj))\n", px, px, px, px)
	if p.tail == "" && p.chance(0.5) {
		p.tail = fmt.Sprintf("%s_x = %s_u(hobj)\n", px, px)
		p.feat("tail-attr-error")
	}
}

func rWideParams(p *prog, w int) {
	px := p.px()
	p.feat("wide-params-" + class(int64(w)))
	npos := w / 2
	p.f("def %s_f(%s, *args, %s, **kw):\n", px,
		seq(npos, func(i int) string {
			if i >= npos/2 {
				return fmt.Sprintf("p%d=%d", i, i)
			}
			return fmt.Sprintf("p%d", i)
		}, ", "),
		seq(w-npos, func(i int) string {
			if i%2 == 0 {
				return fmt.Sprintf("k%d=%d.5", i, i)
			}
			return fmt.Sprintf("k%d", i)
		}, ", "))
	p.f("    return (p0, p%d, args, k0, k%d, kw)\n", npos-1, w-npos-1)
	p.f("%s_r = %s_f(*[%s], **{%s})\n", px, px,
		seq(npos+2, func(i int) string { return fmt.Sprint(i) }, ", "),
		seq(w-npos, func(i int) string { return fmt.Sprintf("\"k%d\": %d", i, -i) }, ", ")+", \"extra\": 1")
	p.f("trace(%s_r)\n", px)
}

func rWideFuncs(p *prog, w int) {
	px := p.px()
	p.feat("wide-functions-" + class(int64(w)))
	p.f("%s_fs = [%s]\n", px, seq(w, func(i int) string {
		if i%3 == 0 {
			return fmt.Sprintf("lambda x, y=%d: x + y", i)
		}
		return fmt.Sprintf("lambda x: x * %d", i)
	}, ",\n  "))
	p.f("trace(%s_fs[0](1), %s_fs[%d](2), %s_fs[%d](3))\n", px, px, w-1, px, w/2)
}

// rNest builds depth levels of closures; every level declares a cell used below and reads every
// variable of every enclosing level.
func rNest(p *prog, depth int) {
	px := p.px()
	p.feat(fmt.Sprintf("nest-depth-%d", depth))
	ind := ""
	for k := 0; k < depth; k++ {
		p.f("%sdef %s_n%d(a%d, b%d=%d):\n", ind, px, k, k, k, k)
		ind += "    "
		if p.chance(0.5) {
			p.f("%s\"level %d doc\"\n", ind, k)
		}
		p.f("%sc%d = [a%d]\n", ind, k, k)
		if k > 0 {
			p.f("%sc%d.append(b%d)\n", ind, k-1, k)
			p.f("%sz%d = t(%d, a%d + a0)\n", ind, k, k, k-1)
		}
	}
	all := seq(depth, func(i int) string { return fmt.Sprintf("a%d, c%d", i, i) }, ", ")
	p.f("%sreturn (%s, (lambda q=b%d: q + a0)())\n", ind, all, depth-1)
	for k := depth - 1; k >= 1; k-- {
		ind = ind[4:]
		if p.chance(0.3) {
			p.f("%sreturn [%s_n%d, lambda: c%d][0]\n", ind, px, k, k-1)
		} else {
			p.f("%sreturn %s_n%d\n", ind, px, k)
		}
	}
	p.f("%s_c0 = %s_n0\n", px, px)
	for k := 1; k <= depth; k++ {
		p.f("%s_c%d = %s_c%d(%d)\n", px, k, px, k-1, k*10)
	}
	p.f("trace(%s_c%d)\n", px, depth)
}

var paramNames = []string{"a", "b", "c", "d", "e", "f", "g", "h"}

func rParams(p *prog) {
	px := p.px()
	p.feat("param-forms")
	r := p.r
	for v := 0; v < 1+r.Intn(3); v++ {
		npos := r.Intn(4)
		nopt := 0
		if npos > 0 {
			nopt = r.Intn(npos + 1)
		}
		var params, names, callArgs []string
		for i := 0; i < npos; i++ {
			n := paramNames[i]
			names = append(names, n)
			if i >= npos-nopt {
				params = append(params, n+"="+constLiteral(p))
				if r.Intn(2) == 0 {
					callArgs = append(callArgs, fmt.Sprintf("%s=%d", n, i))
				}
			} else {
				params = append(params, n)
				callArgs = append(callArgs, fmt.Sprintf("%s=%d", n, i))
			}
		}
		varargs := r.Intn(3) == 0
		nkw := r.Intn(3)
		if varargs {
			params = append(params, "*rest")
			names = append(names, "rest")
			p.feat("varargs")
		} else if nkw > 0 {
			params = append(params, "*")
		}
		for i := 0; i < nkw; i++ {
			n := paramNames[4+i]
			names = append(names, n)
			if r.Intn(2) == 0 {
				params = append(params, n+"="+constLiteral(p))
				p.feat("kwonly-default")
			} else {
				params = append(params, n)
				callArgs = append(callArgs, fmt.Sprintf("%s=%d", n, 100+i))
				p.feat("kwonly-required")
			}
		}
		if r.Intn(3) == 0 {
			params = append(params, "**kw")
			names = append(names, "kw")
			callArgs = append(callArgs, "zz=1")
			p.feat("kwargs")
		}
		ret := "(" + strings.Join(names, ", ") + ",)"
		if len(names) == 0 {
			ret = "()"
		}
		if r.Intn(2) == 0 {
			p.f("def %s_f%d(%s):\n    return t(8, %s)\n", px, v, strings.Join(params, ", "), ret)
		} else {
			p.f("%s_f%d = lambda %s: t(8, %s)\n", px, v, strings.Join(params, ", "), ret)
			p.feat("lambda-defaults")
		}
		p.f("%s_r%d = %s_f%d(%s)\n", px, v, px, v, strings.Join(callArgs, ", "))
		if p.tail == "" && r.Intn(6) == 0 {
			p.tail = fmt.Sprintf("%s_bad = %s_f%d(nosuch=1, *[1, 2, 3, 4, 5, 6])\n", px, px, v)
			p.feat("tail-binding-error")
		}
	}
}

var modules = []string{"m.star", "n.star", "dir/o.star", "//pkg:file.star", "模块.star", "m.star"}

func rLoads(p *prog) {
	px := p.px()
	p.feat("loads")
	r := p.r
	n := 1 + r.Intn(4)
	var used []string
	for i := 0; i < n; i++ {
		mod := modules[r.Intn(len(modules))]
		var items []string
		if !p.usedLa && r.Intn(2) == 0 {
			p.usedLa = true
			items = append(items, `"la"`)
			used = append(used, "la")
		}
		for j, m := 0, 1+r.Intn(3); j < m; j++ {
			name := fmt.Sprintf("%s_l%d_%d", px, i, j)
			from := []string{"la", "lb", "lc", "ld"}[r.Intn(4)]
			items = append(items, fmt.Sprintf("%s=\"%s\"", name, from))
			used = append(used, name)
		}
		fn := fmt.Sprintf("%s_lf%d", px, i)
		items = append(items, fn+` = "lf"`)
		var stmt string
		switch r.Intn(3) {
		case 0:
			stmt = fmt.Sprintf("load(\"%s\", %s)\n", mod, strings.Join(items, ", "))
		case 1:
			stmt = fmt.Sprintf("load(\n    '%s',\n    %s,\n)\n", mod, strings.Join(items, ",\n        "))
		default:
			stmt = fmt.Sprintf("%sload   (  \"%s\"  ,%s)  # c\n", strings.Repeat("\n", r.Intn(300)), mod, strings.Join(items, " , "))
		}
		if r.Intn(2) == 0 {
			p.loads = append(p.loads, stmt)
		} else {
			p.f("%s", stmt)
			p.feat("load-mid-file")
		}
		p.f("trace(%s(1, 2, 3))\n", fn)
	}
	p.f("%s_v = [%s]\n", px, strings.Join(used, ", "))
	p.f("def %s_use():\n    return [%s]\n", px, strings.Join(used, ", "))
	p.f("trace(%s_v, %s_use())\n", px, px)
	if p.tail == "" && r.Intn(5) == 0 {
		p.tail = fmt.Sprintf("load(\"missing/%s.star\", %s_q=\"la\")\n", px, px)
		p.feat("tail-load-error")
	}
}

func rManyLoads(p *prog, n int) {
	px := p.px()
	p.feat("loads-" + class(int64(n)))
	for i := 0; i < n; i++ {
		p.loads = append(p.loads, fmt.Sprintf("load(\"mod%d.star\", %s_a%d=\"la\")\n", i, px, i))
	}
	p.f("trace(%s_a0 + %s_a%d)\n", px, px, n-1)
}

func rComps(p *prog) {
	px := p.px()
	p.feat("comprehensions")
	k := 2 + p.r.Intn(4)
	p.f("%s_a = [x * y for x in range(%d) for y in range(3) if (x + y) %% 2]\n", px, k)
	p.f("%s_b = {str(k): [j for j in range(k)] for k in range(%d)}\n", px, k)
	p.f("%s_c = [(lambda z: z + q)(q) for q in range(%d)]\n", px, k)
	p.f("%s_fs = [lambda: w for w in range(%d)]\n", px, k)
	p.f("%s_d = [f() for f in %s_fs]\n", px, px)
	p.f("def %s_f(n):\n    return ([[a + b for a in range(n)] for b in range(n)], {a: b for a, b in [(1, 2), (3, n)]}, [lambda: (a, n) for a in range(n)])\n", px)
	p.f("%s_e = %s_f(%d)\n", px, px, k)
	p.f("trace(%s_a, %s_b, %s_c, %s_d, %s_e[0], %s_e[1], [g() for g in %s_e[2]], [t(9, u) for u in %s_a])\n", px, px, px, px, px, px, px, px)
}

func rRecursion(p *prog) {
	px := p.px()
	p.feat("recursion")
	p.f("def %s_fact(n):\n    \"factorial\"\n    if n <= 1:\n        return t(10, 1)\n    return n * %s_fact(n - 1)\n", px, px)
	p.f("def %s_ev(n):\n    return True if n == 0 else %s_od(n - 1)\n", px, px)
	p.f("def %s_od(n):\n    return False if n == 0 else %s_ev(n - 1)\n", px, px)
	p.f("%s_y = lambda f, n: 1 if n == 0 else n * f(f, n - 1)\n", px)
	p.f("%s_r0 = %s_fact(1)\n", px, px) // never recursive: fine under both settings
	if p.tail == "" {
		switch p.r.Intn(4) {
		case 0:
			p.tail = fmt.Sprintf("%s_r1 = %s_fact(%d)\ntrace(%s_r1)\n", px, px, 2+p.r.Intn(20), px)
		case 1:
			p.tail = fmt.Sprintf("%s_r1 = %s_ev(%d)\ntrace(%s_r1)\n", px, px, 1+p.r.Intn(9), px)
		case 2:
			p.tail = fmt.Sprintf("%s_r1 = %s_y(%s_y, %d)\ntrace(%s_r1)\n", px, px, px, 1+p.r.Intn(9), px)
		default:
			p.tail = fmt.Sprintf("%s_r1 = sorted([3, 1, 2], key=lambda k: %s_fact(k))\ntrace(%s_r1)\n", px, px, px)
		}
		p.feat("tail-recursive-call")
	}
}

var lightRecipes = []func(p *prog){
	rInts, rFloats, rStrings, rBytes, rDocs, rParams, rLoads, rComps, rRecursion,
	func(p *prog) {
		rMany(p, []string{"int", "str", "float", "bigint", "bytes"}[p.r.Intn(5)], 130+p.r.Intn(1500))
	},
	func(p *prog) { rWideGlobals(p, 200+p.r.Intn(200)) },
	func(p *prog) { rWideLocals(p, 200+p.r.Intn(200), []int{0, 3, 100, 300}[p.r.Intn(4)]) },
	func(p *prog) { rNames(p, 10+p.r.Intn(300)) },
	func(p *prog) { rWideParams(p, 6+p.r.Intn(400)) },
	func(p *prog) { rWideFuncs(p, 100+p.r.Intn(300)) },
	func(p *prog) { rNest(p, 2+p.r.Intn(13)) },
}

func (p *prog) input(name string, opts int) *input {
	in := &input{family: "directed", name: name, filename: filenames[p.r.Intn(len(filenames))], src: p.text(), opts: *sl.OptionsFromBits(opts), maxSteps: 400000, feats: p.feats, patch: p.patch}
	return in
}

func directedInput(r *rand.Rand, thorough bool) *input {
	p := &prog{r: r, big: thorough}
	n := 1 + r.Intn(4)
	for i := 0; i < n; i++ {
		lightRecipes[r.Intn(len(lightRecipes))](p)
	}
	if p.doc == "" && r.Intn(4) == 0 {
		p.doc = docLiteral(p) + "\n"
		p.feat("module-docstring")
	}
	return p.input("mix", r.Intn(64))
}

// heavyRecipes are large single-purpose programs run once per run (sizes past 2^14 / 2^16).
func heavyRecipes() []func(r *rand.Rand, thorough bool) *input {
	mk := func(name string, f func(p *prog)) func(r *rand.Rand, thorough bool) *input {
		return func(r *rand.Rand, thorough bool) *input {
			p := &prog{r: r, big: thorough}
			f(p)
			in := p.input(name, r.Intn(64))
			in.maxSteps = 3000000
			in.noGuard = true
			return in
		}
	}
	return []func(r *rand.Rand, thorough bool) *input{
		mk("many-int-70000", func(p *prog) { rMany(p, "int", 70000) }),
		mk("many-str-66000", func(p *prog) { rMany(p, "str", 66000) }),
		mk("many-float-bigint-bytes", func(p *prog) { rMany(p, "float", 20000); rMany(p, "bigint", 17000); rMany(p, "bytes", 9000) }),
		mk("wide-globals-20000", func(p *prog) { rWideGlobals(p, 20000) }),
		mk("wide-locals-5000-cells-2000", func(p *prog) { rWideLocals(p, 5000, 2000) }),
		mk("wide-locals-70000", func(p *prog) { rWideLocals(p, 70000, 0) }),
		mk("wide-params-1000-functions-3000", func(p *prog) { rWideParams(p, 1000); rWideFuncs(p, 3000) }),
		mk("long-strings", func(p *prog) {
			p.doc = `"""` + longText(300000) + `"""` + "\n"
			p.f("h_s = \"%s\"\nh_b = b\"%s\"\n", longText(1<<20+1), longText(1<<20+3))
			p.f("def h_f():\n    \"%s\"\n    return t(1, len(h_s) + len(h_b))\n", longText(200001))
			p.f("trace(h_f(), h_s[-5:], h_b[:5])\n")
			p.feat("str-1MiB")
		}),
		mk("nest-depth-40", func(p *prog) { rNest(p, 40) }),
		mk("names-3000", func(p *prog) { rNames(p, 3000) }),
		mk("loads-300", func(p *prog) { rManyLoads(p, 300) }),
		mk("everything", func(p *prog) {
			for _, f := range lightRecipes {
				f(p)
			}
		}),
	}
}
