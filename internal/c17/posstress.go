package c17

import (
	"fmt"
	"math/rand"
	"strings"

	"verif/internal/sl"
)

// Position-table stress (the C16 recipe): call chains through defs, lambdas, comprehensions and
// built-in callbacks whose innermost function has many preceding instructions, huge line gaps,
// far columns and huge loop/branch bodies before a (usually failing) operation. The oracle here is
// only equality before/after the round trip, so the expected positions need not be known.

func pickInt(r *rand.Rand, vals ...int) int { return vals[r.Intn(len(vals))] }

func gapLines(r *rand.Rand, n int) string {
	if n == 0 {
		return ""
	}
	if r.Intn(2) == 0 {
		return strings.Repeat("\n", n)
	}
	return strings.Repeat("# c\n", n)
}

// filler emits n cheap statements at the given indent, sometimes many per line.
func filler(b *strings.Builder, r *rand.Rand, ind string, n int) {
	for i := 0; i < n; {
		k := 1
		if r.Intn(4) == 0 {
			k = 1 + r.Intn(60)
		}
		if k > n-i {
			k = n - i
		}
		b.WriteString(ind)
		for j := 0; j < k; j++ {
			if j > 0 {
				b.WriteString("; ")
			}
			switch r.Intn(4) {
			case 0:
				b.WriteString("a = a + 1")
			case 1:
				b.WriteString("a += x")
			case 2:
				b.WriteString("w = [a, x, a]")
			default:
				b.WriteString("a = (a * 3) % 1000")
			}
		}
		b.WriteString("\n")
		i += k
		if r.Intn(30) == 0 {
			b.WriteString(gapLines(r, 1+r.Intn(40)))
		}
	}
}

func posInput(r *rand.Rand, thorough bool) *input {
	var b strings.Builder
	var feats []string
	feat := func(s string) { feats = append(feats, "pos:"+s) }

	gapTop := pickInt(r, 0, 0, 1, 17, 40, 1000, 20000)
	gapIn := pickInt(r, 0, 0, 1, 16, 31, 32, 500, 5000)
	if r.Intn(20) == 0 {
		gapTop = 100000
		feat("gap-1e5-before-def")
	}
	if r.Intn(20) == 0 {
		gapIn = 100000
		feat("gap-1e5-inside-def")
	}
	nfill := pickInt(r, 0, 3, 10, 100, 1000, 5000)
	if nfill >= 1000 {
		feat("instructions>=1000")
	}
	colPad := pickInt(r, 0, 0, 30, 64, 100, 1000, 10000)
	if colPad >= 10000 {
		feat("column-1e4")
	}
	hugeKind := r.Intn(6)
	hugeN := pickInt(r, 5, 40, 300, 2000)
	failKind := r.Intn(10)
	depth := 1 + r.Intn(7)

	b.WriteString(gapLines(r, gapTop))
	b.WriteString("def e0(x):\n")
	if r.Intn(3) == 0 {
		b.WriteString("    \"innermost\"\n")
	}
	b.WriteString("    a = 0\n")
	filler(&b, r, "    ", nfill)
	switch hugeKind {
	case 0:
		feat("huge-for-body")
		b.WriteString("    for i in range(2):\n        if i == 0:\n            continue\n")
		filler(&b, r, "        ", hugeN)
		b.WriteString("        if a < 0:\n            break\n")
	case 1:
		feat("huge-if-else")
		b.WriteString("    if x > 100:\n")
		filler(&b, r, "        ", hugeN)
		b.WriteString("    elif x > 50:\n")
		filler(&b, r, "        ", hugeN/2+1)
		b.WriteString("    else:\n")
		filler(&b, r, "        ", hugeN)
	case 2:
		feat("huge-cond-expr")
		b.WriteString("    a = (x if x > 100 else (\n")
		for i := 0; i < hugeN; i++ {
			fmt.Fprintf(&b, "        a + %d +\n", i)
		}
		b.WriteString("        0))\n")
	case 3:
		feat("huge-nested-loops")
		b.WriteString("    for i in range(2):\n        for j in [1, 2]:\n            if j == 2:\n                break\n")
		filler(&b, r, "            ", hugeN)
		b.WriteString("        a += i\n")
	default:
		feat("no-huge-body")
	}
	b.WriteString(gapLines(r, gapIn))
	// the operation of interest, optionally far to the right
	pad := ""
	switch {
	case colPad == 0:
	case r.Intn(3) == 0:
		pad = "_s = \"" + strings.Repeat("é", colPad) + "\"; "
		feat("pad-multibyte-string")
	case r.Intn(2) == 0:
		pad = "_s = \"" + longText(colPad) + "\"; "
		feat("pad-long-string")
	default:
		pad = "_s = (" + strings.Repeat(" ", colPad) + "1); "
		feat("pad-spaces")
	}
	b.WriteString("    " + pad)
	switch failKind {
	case 0:
		b.WriteString("y = x + \"s\"\n")
		feat("fail-binop")
	case 1:
		b.WriteString("y = (x, a)[5]\n")
		feat("fail-index")
	case 2:
		b.WriteString("y = x.nosuch\n")
		feat("fail-attr")
	case 3:
		b.WriteString("y = x(1)\n")
		feat("fail-call")
	case 4:
		b.WriteString("y = fail(\"boom\", x)\n")
		feat("fail-fail")
	case 5:
		b.WriteString("y = zz + 1\n    zz = 0\n")
		feat("fail-unbound-local")
	case 6:
		b.WriteString("y, q = [x]\n")
		feat("fail-unpack")
	case 7:
		b.WriteString("y = x // (a - a)\n")
		feat("fail-div0")
	default:
		b.WriteString("y = t(5, x)\n")
		feat("no-failure")
	}
	b.WriteString("    return t(6, y)\n")

	// the call chain
	prev := "e0"
	for k := 1; k < depth; k++ {
		name := fmt.Sprintf("e%d", k)
		b.WriteString(gapLines(r, pickInt(r, 0, 0, 1, 15, 16, 200)))
		lead := ""
		if r.Intn(4) == 0 {
			lead = "(" + strings.Repeat(" ", pickInt(r, 31, 32, 33, 100, 2000)) + "0) + "
		}
		switch r.Intn(6) {
		case 0:
			if r.Intn(4) == 0 {
				// the lambda (and its parameter) far to the right of a long literal on the same line
				n := pickInt(r, 100, 10000, 70000)
				fmt.Fprintf(&b, "_p%d = \"%s\"; ", k, longText(n))
				feat("lambda-at-column-" + class(int64(n)))
			}
			fmt.Fprintf(&b, "%s = lambda x: %s%s(x)\n", name, lead, prev)
			feat("chain-lambda")
		case 1:
			fmt.Fprintf(&b, "def %s(x):\n    return [%s%s(v) for v in [x]][0]\n", name, lead, prev)
			feat("chain-comprehension")
		case 2:
			fmt.Fprintf(&b, "def %s(x):\n    return sorted([x, x], key=%s)[0]\n", name, prev)
			feat("chain-builtin-callback")
		case 3:
			fmt.Fprintf(&b, "def %s(x):\n    a = 1\n", name)
			filler(&b, r, "    ", pickInt(r, 1, 20, 300))
			fmt.Fprintf(&b, "    return %s%s(*[x], **{})\n", lead, prev)
			feat("chain-def-star-call")
		case 4:
			fmt.Fprintf(&b, "def %s(x):\n    def inner(q):\n        return %s%s(q)\n    return inner(x)\n", name, lead, prev)
			feat("chain-nested-def")
		default:
			fmt.Fprintf(&b, "def %s(x):\n    return %s%s(x)\n", name, lead, prev)
			feat("chain-def")
		}
		prev = name
	}
	b.WriteString(gapLines(r, pickInt(r, 0, 1, 15, 16, 17, 3000)))
	fmt.Fprintf(&b, "trace(\"before\")\nr = %s(%d)\ntrace(r)\n", prev, r.Intn(200))
	fn := filenames[r.Intn(len(filenames))]
	return &input{family: "positions", name: "pos", filename: fn, src: b.String(), opts: *sl.OptionsFromBits(r.Intn(64)), maxSteps: 400000, feats: feats}
}
