package c17

import (
	"fmt"
	"runtime/metrics"
	"sort"
	"strings"

	sjson "go.starlark.net/lib/json"
	smath "go.starlark.net/lib/math"
	"go.starlark.net/starlark"
	"go.starlark.net/starlarkstruct"
	"go.starlark.net/syntax"

	"verif/internal/canon"
	"verif/internal/sl"
)

// kv is one named observation; records are compared field by field so that a difference can be
// attributed to the accessor that exposed it.
type kv struct{ k, v string }

// record is everything observable about one execution of a program (DESIGN §4.3 plus metadata).
type record struct {
	prog    []kv     // Program.Filename, NumLoads, Load(i)
	events  []string // host events in order: t/tick/trace/print/load/assert.*, each with call stack and step count
	frames  []string // per distinct calling function (first sighting): its metadata, docstring and local bindings
	globals string
	err     string
	steps   uint64
	funcs   [][]kv // metadata of every *starlark.Function reachable from globals / seen in events
	panic   string // Go panic raised while executing or observing (never expected)
	nfuncs  int
	outcome string // ok | dynamic | steplimit | other-error
	guard   bool   // the memory guard cancelled this execution: the record must not be compared
}

const maxEvents = 20000

// host is the per-execution environment: fresh counters, fresh values.
type host struct {
	rec      *record
	ticks    int
	seenFn   map[string]bool
	fnOrder  []*starlark.Function
	fnSeen   map[*starlark.Function]bool
	corpus   bool
	overflow bool
}

func posStr(p syntax.Position) string {
	return fmt.Sprintf("%s:%d:%d", p.Filename(), p.Line, p.Col)
}

// stackStr renders the active call stack (names and current positions of every frame).
func stackStr(th *starlark.Thread) string {
	var b strings.Builder
	cs := th.CallStack()
	for i, fr := range cs {
		if i > 0 {
			b.WriteString(" > ")
		}
		fmt.Fprintf(&b, "%s@%d:%d", fr.Name, fr.Pos.Line, fr.Pos.Col)
	}
	return b.String()
}

func (h *host) event(th *starlark.Thread, what string) {
	if len(h.rec.events) >= maxEvents {
		h.overflow = true
		return
	}
	h.rec.events = append(h.rec.events, fmt.Sprintf("%s | steps=%d | %s", what, th.ExecutionSteps(), stackStr(th)))
	// The Starlark caller of the built-in: observe its function metadata and local bindings once.
	if th.CallStackDepth() >= 2 {
		df := th.DebugFrame(1)
		if fn, ok := df.Callable().(*starlark.Function); ok {
			key := fn.Name() + "@" + posStr(fn.Position())
			if !h.seenFn[key] && len(h.seenFn) < 400 {
				h.seenFn[key] = true
				var b strings.Builder
				fmt.Fprintf(&b, "%s doc=%q locals=[", key, fn.Doc())
				n := df.NumLocals()
				for i := 0; i < n; i++ {
					bind, _ := df.Local(i)
					fmt.Fprintf(&b, "%s@%d:%d ", bind.Name, bind.Pos.Line, bind.Pos.Col)
				}
				b.WriteString("]")
				h.rec.frames = append(h.rec.frames, b.String())
				h.noteFn(fn)
			}
		}
	}
}

func (h *host) noteFn(fn *starlark.Function) {
	if !h.fnSeen[fn] && len(h.fnOrder) < 5000 {
		h.fnSeen[fn] = true
		h.fnOrder = append(h.fnOrder, fn)
	}
}

func canonArgs(args starlark.Tuple, kwargs []starlark.Tuple) string {
	var b strings.Builder
	for i, a := range args {
		if i > 0 {
			b.WriteString(", ")
		}
		b.WriteString(canon.ValueOpts(a, canon.Opts{Funcs: true, MaxNodes: 3000}))
	}
	for _, kw := range kwargs {
		b.WriteString(", ")
		b.WriteString(canon.ValueOpts(kw[0], canon.Opts{MaxNodes: 100}))
		b.WriteString("=")
		b.WriteString(canon.ValueOpts(kw[1], canon.Opts{Funcs: true, MaxNodes: 3000}))
	}
	return b.String()
}

// collectArgFns remembers functions passed to host calls so that their metadata is compared too.
func (h *host) collectArgFns(args starlark.Tuple) {
	for _, a := range args {
		if fn, ok := a.(*starlark.Function); ok {
			h.noteFn(fn)
		}
	}
}

func (h *host) builtin(name string, f func(th *starlark.Thread, args starlark.Tuple, kwargs []starlark.Tuple) (starlark.Value, error)) *starlark.Builtin {
	return starlark.NewBuiltin(name, func(th *starlark.Thread, _ *starlark.Builtin, args starlark.Tuple, kwargs []starlark.Tuple) (starlark.Value, error) {
		h.collectArgFns(args)
		return f(th, args, kwargs)
	})
}

// NHostInts is the number of predeclared integer names h000… (they populate Program.Names).
const NHostInts = 320

func hostIntName(i int) string { return fmt.Sprintf("h%03d", i) }

var hostNames = func() map[string]bool {
	m := map[string]bool{"t": true, "tick": true, "trace": true, "struct": true, "hobj": true}
	for i := 0; i < NHostInts; i++ {
		m[hostIntName(i)] = true
	}
	return m
}()

var corpusNames = map[string]bool{"struct": true, "json": true, "math": true, "t": true, "tick": true, "trace": true}

func isPredeclared(corpus bool) func(string) bool {
	if corpus {
		// Unknown names (the tests' own predeclared helpers such as hasfields, fibonacci) are accepted so
		// that the chunk still compiles; using one fails at run time, identically before and after.
		return func(n string) bool { return corpusNames[n] || !starlark.Universe.Has(n) }
	}
	return func(n string) bool { return hostNames[n] }
}

func (h *host) env() starlark.StringDict {
	env := starlark.StringDict{
		"t": h.builtin("t", func(th *starlark.Thread, args starlark.Tuple, kwargs []starlark.Tuple) (starlark.Value, error) {
			h.event(th, "t("+canonArgs(args, kwargs)+")")
			if len(args) < 2 {
				return starlark.None, nil
			}
			return args[1], nil
		}),
		"tick": h.builtin("tick", func(th *starlark.Thread, args starlark.Tuple, kwargs []starlark.Tuple) (starlark.Value, error) {
			h.ticks++
			h.event(th, fmt.Sprintf("tick(%s) -> %d", canonArgs(args, kwargs), h.ticks))
			return starlark.MakeInt(h.ticks), nil
		}),
		"trace": h.builtin("trace", func(th *starlark.Thread, args starlark.Tuple, kwargs []starlark.Tuple) (starlark.Value, error) {
			h.event(th, "trace("+canonArgs(args, kwargs)+")")
			return starlark.None, nil
		}),
		"struct": starlark.NewBuiltin("struct", starlarkstruct.Make),
	}
	if h.corpus {
		env["json"] = sjson.Module
		env["math"] = smath.Module
		return env
	}
	for i := 0; i < NHostInts; i++ {
		env[hostIntName(i)] = starlark.MakeInt(1000 + i)
	}
	env["hobj"] = starlarkstruct.FromStringDict(starlarkstruct.Default, starlark.StringDict{
		"a0": starlark.MakeInt(7), "a1": starlark.String("one"), "name": starlark.String("hobj"),
	})
	return env
}

// assertModule is a recording stand-in for starlarktest's assert module: it never fails on a wrong
// comparison (the corpus is a workload here, not a test) but records what it was given.
func (h *host) assertModule() starlark.Value {
	rec := func(name string) *starlark.Builtin {
		return h.builtin("assert."+name, func(th *starlark.Thread, args starlark.Tuple, kwargs []starlark.Tuple) (starlark.Value, error) {
			h.event(th, "assert."+name+"("+canonArgs(args, kwargs)+")")
			return starlark.None, nil
		})
	}
	fails := h.builtin("assert.fails", func(th *starlark.Thread, args starlark.Tuple, kwargs []starlark.Tuple) (starlark.Value, error) {
		if len(args) < 1 {
			return starlark.None, nil
		}
		_, err := starlark.Call(th, args[0], nil, nil)
		h.event(th, "assert.fails("+canonArgs(args[1:], nil)+") -> "+canon.Error(err))
		return starlark.None, nil
	})
	fail := h.builtin("assert.fail", func(th *starlark.Thread, args starlark.Tuple, kwargs []starlark.Tuple) (starlark.Value, error) {
		h.event(th, "assert.fail("+canonArgs(args, kwargs)+")")
		return nil, fmt.Errorf("assert.fail: %s", canonArgs(args, nil))
	})
	return &starlarkstruct.Module{Name: "assert", Members: starlark.StringDict{
		"eq": rec("eq"), "ne": rec("ne"), "true": rec("true"), "lt": rec("lt"), "contains": rec("contains"),
		"fails": fails, "fail": fail,
	}}
}

func (h *host) load(th *starlark.Thread, module string) (starlark.StringDict, error) {
	h.event(th, fmt.Sprintf("load(%q)", module))
	if h.corpus {
		switch module {
		case "assert.star":
			return starlark.StringDict{
				"assert": h.assertModule(),
				"freeze": h.builtin("freeze", func(th *starlark.Thread, args starlark.Tuple, kwargs []starlark.Tuple) (starlark.Value, error) {
					for _, a := range args {
						a.Freeze()
					}
					return starlark.None, nil
				}),
			}, nil
		case "json.star":
			return starlark.StringDict{"json": sjson.Module}, nil
		case "math.star":
			return starlark.StringDict{"math": smath.Module}, nil
		}
		return nil, fmt.Errorf("no such module %q", module)
	}
	if strings.HasPrefix(module, "missing") {
		return nil, fmt.Errorf("no such module %q", module)
	}
	return starlark.StringDict{
		"la": starlark.MakeInt(3), "lb": starlark.MakeInt(4), "lc": starlark.String("c:" + module), "ld": starlark.Float(2.5),
		"lf": h.builtin("lf", func(th *starlark.Thread, args starlark.Tuple, kwargs []starlark.Tuple) (starlark.Value, error) {
			h.event(th, "lf("+canonArgs(args, kwargs)+")")
			return starlark.MakeInt(len(args)), nil
		}),
	}, nil
}

// fnMeta lists every public accessor of a function value.
func fnMeta(fn *starlark.Function) []kv {
	var m []kv
	add := func(k, v string) { m = append(m, kv{k, v}) }
	add("Name", fn.Name())
	add("Doc", fmt.Sprintf("%q", fn.Doc()))
	add("Position", posStr(fn.Position()))
	add("NumParams", fmt.Sprint(fn.NumParams()))
	add("NumKwonlyParams", fmt.Sprint(fn.NumKwonlyParams()))
	add("HasVarargs", fmt.Sprint(fn.HasVarargs()))
	add("HasKwargs", fmt.Sprint(fn.HasKwargs()))
	var names, poss, dfl strings.Builder
	n := fn.NumParams()
	if n > 100000 {
		n = 100000
	}
	for i := 0; i < n; i++ {
		name, pos := fn.Param(i)
		names.WriteString(name + " ")
		poss.WriteString(posStr(pos) + " ")
		if d := fn.ParamDefault(i); d != nil {
			dfl.WriteString(name + "=" + canon.ValueOpts(d, canon.Opts{Funcs: false, MaxNodes: 2000}) + " ")
		} else {
			dfl.WriteString(name + " ")
		}
	}
	add("Param names", names.String())
	add("Param positions", poss.String())
	add("ParamDefault", dfl.String())
	add("NumFreeVars", fmt.Sprint(fn.NumFreeVars()))
	var fv strings.Builder
	for i := 0; i < fn.NumFreeVars() && i < 100000; i++ {
		b, v := fn.FreeVar(i)
		fv.WriteString(b.Name + "@" + posStr(b.Pos) + "=" + canon.ValueOpts(v, canon.Opts{Funcs: false, MaxNodes: 500}) + " ")
	}
	add("FreeVar", fv.String())
	return m
}

// walkFns finds every function reachable from v (through collections, defaults and free variables).
func (h *host) walkFns(v starlark.Value, seen map[any]bool, budget *int) {
	if v == nil || *budget <= 0 {
		return
	}
	*budget--
	switch v := v.(type) {
	case *starlark.Function:
		if seen[v] {
			return
		}
		seen[v] = true
		h.noteFn(v)
		for i := 0; i < v.NumParams(); i++ {
			h.walkFns(v.ParamDefault(i), seen, budget)
		}
		for i := 0; i < v.NumFreeVars(); i++ {
			_, fv := v.FreeVar(i)
			h.walkFns(fv, seen, budget)
		}
	case starlark.Tuple:
		for _, e := range v {
			h.walkFns(e, seen, budget)
		}
	case *starlark.List:
		if seen[v] {
			return
		}
		seen[v] = true
		for i := 0; i < v.Len(); i++ {
			h.walkFns(v.Index(i), seen, budget)
		}
	case *starlark.Dict:
		if seen[v] {
			return
		}
		seen[v] = true
		for _, it := range v.Items() {
			h.walkFns(it[0], seen, budget)
			h.walkFns(it[1], seen, budget)
		}
	case *starlark.Set:
		if seen[v] {
			return
		}
		seen[v] = true
		it := v.Iterate()
		var e starlark.Value
		for it.Next(&e) {
			h.walkFns(e, seen, budget)
		}
		it.Done()
	case *starlarkstruct.Struct:
		if seen[v] {
			return
		}
		seen[v] = true
		for _, n := range v.AttrNames() {
			if a, err := v.Attr(n); err == nil {
				h.walkFns(a, seen, budget)
			}
		}
	}
}

func progMeta(p *starlark.Program) []kv {
	m := []kv{{"Filename", p.Filename()}, {"NumLoads", fmt.Sprint(p.NumLoads())}}
	for i := 0; i < p.NumLoads() && i < 100000; i++ {
		name, pos := p.Load(i)
		m = append(m, kv{fmt.Sprintf("Load(%d)", i), fmt.Sprintf("%q @ %s", name, posStr(pos))})
	}
	return m
}

// Memory guard. Generated programs can double a list or an integer at every step
// (for x in l + [..]: l.extend(l)), which the step limit does not bound. The step hook (build tag
// verif) looks at the heap size before every instruction that can allocate much and cancels the
// thread synchronously once it exceeds the limit; such a case is discarded, never judged.
var guard struct {
	on     bool
	fired  bool
	limit  uint64 // heap size at which the running execution is cancelled
	sample []metrics.Sample
	ops    [256]bool
}

const guardGrowth = 96 << 20 // bytes the heap may grow during one execution

func init() {
	guard.sample = []metrics.Sample{{Name: "/memory/classes/heap/objects:bytes"}}
	want := map[string]bool{"call": true, "call_var": true, "call_kw": true, "call_var_kw": true, "plus": true, "star": true,
		"inplace_add": true, "pipe": true, "inplace_pipe": true, "ltlt": true, "percent": true, "makelist": true, "append": true}
	for op := 0; op < 256; op++ {
		var name string
		func() {
			defer func() { recover() }()
			name = strings.ToLower(starlark.VerifOpcodeName(uint8(op)))
		}()
		guard.ops[op] = want[name]
	}
	starlark.VerifStepHook = func(th *starlark.Thread, _ *starlark.Function, _ uint32, op uint8) {
		if !guard.on || !guard.ops[op] {
			return
		}
		metrics.Read(guard.sample)
		if guard.sample[0].Value.Kind() == metrics.KindUint64 && guard.sample[0].Value.Uint64() > guard.limit {
			guard.on = false
			guard.fired = true
			th.Cancel("C17 memory guard")
		}
	}
}

// execute initialises the program on a fresh thread with a fresh environment and observes it.
func execute(p *starlark.Program, corpus bool, maxSteps uint64, useGuard bool) *record {
	rec := &record{}
	guard.on, guard.fired = useGuard, false
	if useGuard {
		metrics.Read(guard.sample)
		guard.limit = guard.sample[0].Value.Uint64() + guardGrowth
	}
	defer func() {
		guard.on = false
		rec.guard = guard.fired
	}()
	h := &host{rec: rec, seenFn: map[string]bool{}, fnSeen: map[*starlark.Function]bool{}, corpus: corpus}
	pn := sl.Safe(func() {
		rec.prog = progMeta(p)
		th := &starlark.Thread{Name: "c17"}
		th.Print = func(th *starlark.Thread, msg string) { h.event(th, fmt.Sprintf("print %q", msg)) }
		th.Load = h.load
		th.SetMaxExecutionSteps(maxSteps)
		g, err := p.Init(th, h.env())
		if guard.fired {
			return // the values may be enormous and the record is never used
		}
		rec.steps = th.ExecutionSteps()
		rec.err = canon.Error(err)
		switch e := err.(type) {
		case nil:
			rec.outcome = "ok"
		case *starlark.EvalError:
			rec.outcome = "dynamic"
			if strings.Contains(e.Msg, "too many steps") {
				rec.outcome = "steplimit"
			}
		default:
			rec.outcome = "other-error"
		}
		rec.globals = canon.Globals(g)
		names := make([]string, 0, len(g))
		for n := range g {
			names = append(names, n)
		}
		sort.Strings(names)
		seen := map[any]bool{}
		budget := 200000
		for _, n := range names {
			h.walkFns(g[n], seen, &budget)
		}
		// Functions first seen as host-call arguments may reach further functions.
		for i := 0; i < len(h.fnOrder); i++ {
			fn := h.fnOrder[i]
			if !seen[fn] {
				h.walkFns(fn, seen, &budget)
			}
		}
		for _, fn := range h.fnOrder {
			rec.funcs = append(rec.funcs, fnMeta(fn))
		}
		rec.nfuncs = len(h.fnOrder)
	})
	if pn != nil {
		rec.panic = fmt.Sprintf("%v\n%s", pn.Value, driverTrunc(pn.Stack, 3000))
	}
	if h.overflow {
		rec.events = append(rec.events, "<event log truncated>")
	}
	return rec
}

func driverTrunc(s string, n int) string {
	if len(s) > n {
		return s[:n] + "…"
	}
	return s
}

// diff is one difference between two records.
type diff struct {
	key  string // stable class
	what string
}

func firstDiffIdx(a, b []string) int {
	n := len(a)
	if len(b) < n {
		n = len(b)
	}
	for i := 0; i < n; i++ {
		if a[i] != b[i] {
			return i
		}
	}
	if len(a) != len(b) {
		return n
	}
	return -1
}

func at(a []string, i int) string {
	if i < len(a) {
		return driverTrunc(a[i], 600)
	}
	return "<absent>"
}

// compare returns the differences between the record of the original (a) and of a decoded program (b).
func compare(a, b *record) []diff {
	var ds []diff
	if a.panic != b.panic {
		ds = append(ds, diff{"panic while executing or observing", fmt.Sprintf("original: %q decoded: %q", driverTrunc(a.panic, 300), driverTrunc(b.panic, 300))})
	}
	n := len(a.prog)
	if len(b.prog) != n {
		ds = append(ds, diff{"program metadata differs: NumLoads", fmt.Sprintf("original %v decoded %v", a.prog, b.prog)})
	} else {
		for i := range a.prog {
			if a.prog[i] != b.prog[i] {
				k := a.prog[i].k
				if strings.HasPrefix(k, "Load(") {
					k = "Load(i)"
				}
				ds = append(ds, diff{"program metadata differs: " + k, fmt.Sprintf("%s: original %s decoded %s", a.prog[i].k, a.prog[i].v, b.prog[i].v)})
				break
			}
		}
	}
	if i := firstDiffIdx(a.events, b.events); i >= 0 {
		ds = append(ds, diff{"host events differ", fmt.Sprintf("event %d: original %s | decoded %s", i, at(a.events, i), at(b.events, i))})
	}
	if a.err != b.err {
		ds = append(ds, diff{"error or backtrace differs", fmt.Sprintf("original %q decoded %q", driverTrunc(a.err, 800), driverTrunc(b.err, 800))})
	}
	if a.globals != b.globals {
		al, bl := strings.Split(a.globals, "\n"), strings.Split(b.globals, "\n")
		i := firstDiffIdx(al, bl)
		ds = append(ds, diff{"globals differ", fmt.Sprintf("original %s | decoded %s", at(al, i), at(bl, i))})
	}
	if a.steps != b.steps {
		ds = append(ds, diff{"execution steps differ", fmt.Sprintf("original %d decoded %d", a.steps, b.steps)})
	}
	if i := firstDiffIdx(a.frames, b.frames); i >= 0 {
		ds = append(ds, diff{"calling frame (docstring, local bindings) differs", fmt.Sprintf("original %s | decoded %s", at(a.frames, i), at(b.frames, i))})
	}
	if len(a.funcs) != len(b.funcs) {
		ds = append(ds, diff{"function metadata differs: number of reachable functions", fmt.Sprintf("original %d decoded %d", len(a.funcs), len(b.funcs))})
	} else {
	outer:
		for i := range a.funcs {
			fa, fb := a.funcs[i], b.funcs[i]
			for j := range fa {
				if j >= len(fb) || fa[j] != fb[j] {
					var bv string
					if j < len(fb) {
						bv = fb[j].v
					}
					ds = append(ds, diff{"function metadata differs: " + fa[j].k, fmt.Sprintf("function %s: %s original %s decoded %s", fa[0].v, fa[j].k, driverTrunc(fa[j].v, 500), driverTrunc(bv, 500))})
					break outer
				}
			}
		}
	}
	return ds
}
