// Package c17 monitors property C17: a compiled program survives Write -> CompiledProgram
// unchanged (same bytes when written again, same observable execution, same metadata).
package c17

import (
	"bufio"
	"bytes"
	"fmt"
	"io"
	"math/rand"
	"os"
	"runtime"
	debugpkg "runtime/debug"
	"sort"
	"strings"
	"testing/iotest"
	"time"

	"go.starlark.net/starlark"
	"go.starlark.net/syntax"

	"verif/internal/driver"
	"verif/internal/gen"
	"verif/internal/sl"
)

func init() {
	driver.Register(&driver.Engine{
		ID: "C17", Level: "exploration",
		Rule: "each case is one program text + dialect option vector: P1=SourceProgramOptions (or FileProgram of the patched tree), bytes1=P1.Write, P2=CompiledProgram(bytes1) read through a rotating io.Reader kind (bytes.Reader, bytes.Buffer, one-byte reader, small bufio.Reader, readers that deliver the last bytes together with io.EOF) whose storage the harness overwrites and reuses straight after decoding, bytes2=P2.Write, P3=CompiledProgram(bytes2); oracle: bytes2==bytes1==bytes3 and Record(P1)==Record(P2)==Record(P2 again)==Record(P3), Record = host events in order (t/tick/trace/print/load/assert stubs with canonical arguments, step count and full call stack positions), calling-frame docstrings and local bindings (DebugFrame), canon globals, canon error with every frame and the backtrace text, ExecutionSteps, Program.Filename/NumLoads/Load(i), and every accessor of every function reachable from globals or passed to the host. Families: (a) gen semantic programs x 64 option vectors x random layouts, (b) directed constants/metadata programs (int64 extremes, big ints, floats, bytes with all 256 values, long strings, non-UTF-8 string constants and docstrings (placed in the syntax tree and compiled with FileProgram, since no source text denotes them), docstrings, >255 and >65536 constants, >255 locals/globals/names/params/free variables/functions, 10-14 levels of closures, parameter forms, several aliased loads, comprehensions, recursion on/off), (c) position-table stress (thousands of instructions, 10^5-line gaps, column 10^4, huge loop/branch bodies) with failing runs, (d) the repository's testdata chunks run against a recording assert stub. distinct = distinct (program text, options) whose execution produced >=1 host event or >=1 function value",
		Assumptions: []string{
			"canon renderings and the host-event log distinguish every behaviour the property lists (results, prints, errors, backtrace positions, docstrings, parameter metadata, loads)",
			"the independent reader of the encoding (inspect.go) is used for evidence and for naming the differing section only, never for the verdict",
		},
		Run:         run,
		MinDistinct: 300,
		Finish:      finish,
	})
}

var sampled bool // this process has recorded at least one sample

// input is one program to round-trip.
type input struct {
	family   string
	name     string // recipe / file name (for notes and samples)
	filename string
	src      string
	opts     syntax.FileOptions
	corpus   bool
	maxSteps uint64
	feats    []string
	noGuard  bool // fixed heavy programs: known to be bounded, and large enough to trip the memory guard
	patch    bool // string literals "@@NU8:<hex>" stand for the (non-UTF-8) bytes <hex>: compile via FileProgram
}

const nu8 = "@@NU8:"

// nonUTF8Literal spells a string literal that patchedProgram turns into the given raw bytes.
func nonUTF8Literal(raw string) string { return fmt.Sprintf("\"%s%x\"", nu8, raw) }

// patchedProgram parses the source, replaces the marked string literals in the syntax tree by byte
// strings that no source text can denote (the scanner rejects \xff escapes in str literals and turns
// raw invalid bytes into U+FFFD), and compiles the tree with FileProgram.
func patchedProgram(opts *syntax.FileOptions, in *input) (*starlark.Program, error) {
	f, err := opts.Parse(in.filename, in.src, 0)
	if err != nil {
		return nil, err
	}
	syntax.Walk(f, func(n syntax.Node) bool {
		if lit, ok := n.(*syntax.Literal); ok && lit.Token == syntax.STRING {
			if v, ok := lit.Value.(string); ok && strings.HasPrefix(v, nu8) {
				var raw []byte
				if _, err := fmt.Sscanf(v[len(nu8):], "%x", &raw); err == nil {
					lit.Value = string(raw)
				}
			}
		}
		return true
	})
	return starlark.FileProgram(f, isPredeclared(in.corpus))
}

func finish(ev map[string]any) (string, bool) {
	cover, _ := ev["cover"].(map[string]map[string]struct{})
	if cover == nil {
		return "C17: merged coverage not available to the gate", true
	}
	has := func(group, item string) bool {
		_, ok := cover[group][item]
		return ok
	}
	var missing []string
	for _, k := range []string{"string", "bytes", "int64", "bigint", "float"} {
		if !has("const_kinds", k) {
			missing = append(missing, "constant kind "+k)
		}
	}
	for _, k := range []string{"ok", "dynamic"} {
		if !has("outcome", k) {
			missing = append(missing, "outcome "+k)
		}
	}
	for _, k := range []string{"saturated-delta", "negative-line-delta"} {
		if !has("linetab", k) {
			missing = append(missing, "line table with "+k)
		}
	}
	if counters, ok := ev["counters"].(map[string]int64); ok {
		for _, k := range []string{"functions_compared", "backtraces_compared", "events_compared", "programs_with_loads", "programs_with_recursion_flag", "functions_with_doc", "functions_with_kwonly"} {
			if counters[k] == 0 {
				missing = append(missing, k)
			}
		}
	}
	if len(missing) > 0 {
		return "workload never produced: " + strings.Join(missing, ", "), true
	}
	return "", false
}

func run(c *driver.Ctx) {
	// One child per core runs in parallel; the work of a child is sequential, so more GC workers only thrash.
	runtime.GOMAXPROCS(2)
	// The largest directed programs (MiB-sized sources) leave a lot of garbage; keep the child well under 1 GB.
	debugpkg.SetMemoryLimit(700 << 20)
	n := c.Pick(3000, 300000)
	heavy := heavyRecipes()
	chunks := loadCorpus()
	corpusVariants := 2
	i := 0
	// fixed part 1: heavy directed programs (one each)
	for h := range heavy {
		i++
		if !c.Take() {
			continue
		}
		r := c.Rand()
		in := heavy[h](r, c.Thorough())
		check(c, r, in)
	}
	// fixed part 2: the repository corpus under two option vectors
	for v := 0; v < corpusVariants; v++ {
		for k := range chunks {
			i++
			if !c.Take() {
				continue
			}
			r := c.Rand()
			ch := chunks[k]
			in := &input{family: "corpus", name: ch.name, filename: ch.file, src: ch.src, corpus: true, maxSteps: 60000}
			in.opts = syntax.FileOptions{Set: true, While: true, TopLevelControl: true, GlobalReassign: true, Recursion: true}
			if v == 1 {
				in.opts.Recursion = false
				in.opts.LoadBindsGlobally = true
			}
			check(c, r, in)
		}
	}
	// random part
	for ; i < n; i++ {
		if !c.Take() {
			continue
		}
		r := c.Rand()
		var in *input
		switch k := r.Intn(100); {
		case k < 66:
			in = genInput(r)
		case k < 85:
			in = directedInput(r, c.Thorough())
		default:
			in = posInput(r, c.Thorough())
		}
		check(c, r, in)
	}
}

var filenames = []string{"prog.star", "prog.star", "prog.star", "dir/sub/mod.star", "", "a b.star", "模块/файл.star", "x\xffy.star", strings.Repeat("long/", 60) + "f.star"}

func genInput(r *rand.Rand) *input {
	bits := r.Intn(64)
	opts := *sl.OptionsFromBits(bits)
	cfg := gen.Config{Opts: opts, Trace: true, Host: true, Loads: true}
	switch r.Intn(6) {
	case 0:
		cfg.MaxStmts = 30
	case 1:
		cfg.Misuse = 0.03
	case 2:
		cfg.MaxDepth = 5
	}
	p := gen.Generate(r, cfg)
	o := p.Options(gen.RandomLayout(r))
	o.Filename = filenames[r.Intn(len(filenames))]
	src := gen.Render(p.Stmts, r, o)
	in := &input{family: "gen", name: "gen", filename: o.Filename, src: src, opts: opts, maxSteps: 200000}
	for f := range p.Features {
		in.feats = append(in.feats, "gen:"+f)
	}
	sort.Strings(in.feats)
	return in
}

func write(p *starlark.Program) (out []byte, err error, pn *sl.Panic) {
	pn = sl.Safe(func() {
		var b bytes.Buffer
		err = p.Write(&b)
		out = b.Bytes()
	})
	return
}

var decodeRoute int // rotates the kind of reader handed to CompiledProgram

// decode reads a program back through one of several io.Reader kinds and then reuses the caller's
// storage (overwrites the slice, resets and refills the buffer), as a host that keeps one buffer for
// many programs does: a decoded program must not depend on the memory it was read from.
func decode(data []byte) (p *starlark.Program, err error, pn *sl.Panic) {
	cp := append([]byte(nil), data...)
	decodeRoute++
	var buf *bytes.Buffer
	var rd io.Reader
	switch decodeRoute % 7 {
	case 0:
		rd = bytes.NewReader(cp)
	case 1:
		buf = bytes.NewBuffer(cp)
		rd = buf
	case 2:
		rd = iotest.OneByteReader(bytes.NewReader(cp))
	case 3:
		rd = bufio.NewReaderSize(bytes.NewReader(cp), 16)
	case 4:
		buf = new(bytes.Buffer)
		buf.Write(cp)
		rd = buf
	case 5:
		rd = iotest.DataErrReader(bytes.NewReader(cp)) // final bytes arrive together with io.EOF (as from gzip/flate readers)
	case 6:
		rd = iotest.DataErrReader(iotest.HalfReader(bytes.NewReader(cp)))
	}
	pn = sl.Safe(func() { p, err = starlark.CompiledProgram(rd) })
	for i := range cp {
		cp[i] = 0xAA
	}
	if buf != nil {
		buf.Reset()
		for buf.Len() < len(data)+64 {
			buf.WriteString("\xAAreused by the host for something else\x00")
		}
	}
	return
}

// C17_DEBUG=<file>: append timing / static-error diagnostics there (development aid only).
var debug = os.Getenv("C17_DEBUG") != ""

func dbg(format string, args ...any) {
	f, err := os.OpenFile(os.Getenv("C17_DEBUG"), os.O_APPEND|os.O_CREATE|os.O_WRONLY, 0o644)
	if err != nil {
		return
	}
	fmt.Fprintf(f, format, args...)
	f.Close()
}

func check(c *driver.Ctx, r *rand.Rand, in *input) {
	if debug {
		t0 := time.Now()
		defer func() {
			if d := time.Since(t0); d > 300*time.Millisecond {
				dbg("C17 slow case %d: %s/%s %v len=%d feats=%v\n", c.Case(), in.family, in.name, d, len(in.src), in.feats)
			}
		}()
	}
	check1(c, r, in)
}

func check1(c *driver.Ctx, r *rand.Rand, in *input) {
	optStr := sl.OptionsString(&in.opts)
	c.Note("C17 %s/%s opts=%s file=%q len=%d\n%s", in.family, in.name, optStr, in.filename, len(in.src), driver.Truncate(in.src, 3000))
	c.Eval(1)
	c.Count("cases_"+in.family, 1)
	c.Cover("family", in.family)
	c.Cover("options", optStr)

	detail := func(extra map[string]any) map[string]any {
		d := map[string]any{"family": in.family, "recipe": in.name, "options": optStr, "filename": in.filename, "source": driver.Truncate(in.src, 30000), "source_len": len(in.src)}
		for k, v := range extra {
			d[k] = v
		}
		return d
	}
	viol := func(key, what string, extra map[string]any) {
		c.Violation("C17 "+key, fmt.Sprintf("%s [%s/%s opts=%s]", what, in.family, in.name, optStr), detail(extra))
	}

	var p1 *starlark.Program
	var err error
	opts := in.opts
	if pn := sl.Safe(func() {
		if in.patch {
			p1, err = patchedProgram(&opts, in)
		} else {
			_, p1, err = starlark.SourceProgramOptions(&opts, in.filename, in.src, isPredeclared(in.corpus))
		}
	}); pn != nil {
		// a compiler crash is C02's business; nothing to round-trip
		c.Count("compile_panics", 1)
		c.Cover("outcome", "compile-panic")
		return
	}
	if err != nil {
		c.Count("static_errors", 1)
		c.Cover("outcome", "static-error")
		if in.family != "corpus" {
			c.Count("static_errors_"+in.family, 1)
			if debug {
				dbg("C17 static error in %s/%s opts=%s: %v\n", in.family, in.name, optStr, err)
			}
		}
		return
	}
	c.Count("programs", 1)

	// An execution cancelled by the memory guard (see record.go) excludes the case from every
	// behavioural comparison; the byte comparisons, which do not execute anything, still count.
	excluded := false
	exec := func(p *starlark.Program) *record {
		if excluded {
			return nil
		}
		rec := execute(p, in.corpus, in.maxSteps, !in.noGuard)
		c.Count("executions", 1)
		if rec.guard {
			excluded = true
			c.Count("excluded_by_memory_guard", 1)
			c.Count("excluded_by_memory_guard_"+in.family, 1)
			if debug {
				dbg("C17 memory guard fired: case %d %s/%s len=%d\n", c.Case(), in.family, in.name, len(in.src))
			}
			c.Cover("outcome", "excluded-memory-guard")
			rec = nil
			runtime.GC()
			debugpkg.FreeOSMemory()
		}
		return rec
	}

	// Either write first and run later, or run the original first: the encoder must not depend on it.
	var r1 *record
	runFirst := r.Intn(2) == 0
	if runFirst {
		r1 = exec(p1)
	}
	b1, werr, pn := write(p1)
	if pn != nil || werr != nil {
		viol("write of the compiled program failed", fmt.Sprintf("Program.Write: err=%v panic=%v", werr, pn), nil)
		return
	}
	info := inspect(b1)
	evidence(c, in, info, len(b1))

	p2, derr, pn := decode(b1)
	if pn != nil || derr != nil || p2 == nil {
		viol("CompiledProgram rejects the bytes written by Program.Write", fmt.Sprintf("CompiledProgram: err=%v panic=%v", derr, pn), nil)
		return
	}
	c.Count("decoded_programs", 1)
	b2, werr, pn := write(p2)
	if pn != nil || werr != nil {
		viol("write of the decoded program failed", fmt.Sprintf("Program.Write(decoded): err=%v panic=%v", werr, pn), nil)
		return
	}
	c.Count("bytes_compared", 1)
	c.Count("bytes_total", len(b1))
	var vios []diff
	add := func(d diff) {
		if len(vios) == 0 || strings.HasPrefix(vios[0].key, "bytes differ") {
			vios = append(vios, d)
		}
	}
	if !bytes.Equal(b1, b2) {
		sec := diffSection(b1, b2, info)
		vios = append(vios, diff{"bytes differ after round trip: section " + sec, fmt.Sprintf("len %d vs %d, first difference in section %s", len(b1), len(b2), sec)})
	}
	// decode(encode(decode(encode(P)))) is stable
	p3, derr, pn := decode(b2)
	if pn != nil || derr != nil || p3 == nil {
		add(diff{"CompiledProgram rejects the bytes written by a decoded program", fmt.Sprintf("err=%v panic=%v", derr, pn)})
		p3 = nil
	} else {
		b3, werr, pn := write(p3)
		c.Count("bytes_compared", 1)
		if pn != nil || werr != nil || !bytes.Equal(b3, b1) {
			add(diff{"bytes differ after second round trip", fmt.Sprintf("err=%v panic=%v len %d vs %d", werr, pn, len(b3), len(b1))})
		}
	}

	if !runFirst {
		r1 = exec(p1)
	}
	r2 := exec(p2)
	var ds []diff
	if !excluded {
		ds = compare(r1, r2)
		c.Count("records_compared", 1)
		c.Count("events_compared", len(r1.events))
		c.Count("functions_compared", len(r1.funcs))
		c.Count("frames_compared", len(r1.frames))
		vios = append(vios, ds...)
	}
	// the decoded program is as reusable as the original
	if r2b := exec(p2); !excluded {
		c.Count("records_compared", 1)
		if d2 := compare(r1, r2b); len(d2) > 0 && len(ds) == 0 {
			vios = append(vios, diff{"second execution of the decoded program differs: " + d2[0].key, d2[0].what})
		}
	}
	if p3 != nil && r.Intn(3) == 0 {
		if r3 := exec(p3); !excluded {
			c.Count("records_compared", 1)
			if d3 := compare(r1, r3); len(d3) > 0 && len(ds) == 0 {
				vios = append(vios, diff{"twice-decoded program differs: " + d3[0].key, d3[0].what})
			}
		}
	}

	for _, f := range in.feats {
		c.Cover("features", f)
	}
	if excluded {
		// nothing about the behaviour may be reported; byte differences still are
		var keep []diff
		for _, d := range vios {
			if strings.HasPrefix(d.key, "bytes differ") || strings.HasPrefix(d.key, "CompiledProgram rejects") {
				keep = append(keep, d)
			}
		}
		vios = keep
		r1, r2 = &record{outcome: "excluded"}, &record{}
	} else {
		c.Cover("outcome", r1.outcome)
		c.Count("outcome_"+r1.outcome, 1)
		if r1.outcome == "dynamic" || r1.outcome == "steplimit" {
			c.Count("backtraces_compared", 1)
			c.Count("backtrace_frames_compared", strings.Count(r1.err, "\n  frame "))
		}
		if r1.panic != "" {
			c.Count("execution_panics_original", 1)
		}
		if len(r1.events) > 0 || r1.nfuncs > 0 {
			c.Distinct(optStr + "\x00" + in.filename + "\x00" + in.src)
		} else {
			c.Count("trivial_programs", 1)
		}
		if c.WantSample() && (r.Intn(40) == 0 || !sampled) {
			sampled = true
			c.Sample(map[string]any{"family": in.family, "recipe": in.name, "options": optStr, "source": driver.Truncate(in.src, 1500),
				"encoded_bytes": len(b1), "events": len(r1.events), "functions": r1.nfuncs, "outcome": r1.outcome, "error": driver.Truncate(r1.err, 400)})
		}
	}

	if len(vios) > 0 {
		all := make([]string, len(vios))
		for i, d := range vios {
			all[i] = d.key + ": " + d.what
		}
		viol(vios[0].key, vios[0].what, map[string]any{"all_differences": all, "original_error": r1.err, "decoded_error": r2.err, "run_before_write": runFirst})
	}
}

// evidence records what the encoded program contained (measured from the bytes themselves).
func evidence(c *driver.Ctx, in *input, info *encInfo, nbytes int) {
	if !info.ok {
		c.Count("encodings_not_understood_by_inspector", 1)
		return
	}
	for k, n := range info.consts {
		c.Cover("const_kinds", k)
		c.Count("consts_"+k, n)
	}
	c.Count("encoded_functions", info.nfuncs+1)
	c.Count("linetab_rows", info.rows)
	c.Count("linetab_rows_incomplete", info.rowsInc)
	c.Count("linetab_rows_negative_line", info.rowsNegL)
	c.Count("linetab_rows_negative_col", info.rowsNegC)
	c.Count("linetab_rows_wider_than_8_bits", info.rowsWide)
	c.Count("functions_with_doc", info.docs)
	c.Count("functions_with_kwonly", info.kwonly)
	c.Count("functions_with_varargs", info.varargs)
	c.Count("functions_with_kwargs", info.kwargs)
	if info.recursion != 0 {
		c.Count("programs_with_recursion_flag", 1)
	}
	if info.nloads > 0 {
		c.Count("programs_with_loads", 1)
		c.Count("load_statements", info.nloads)
	}
	c.Cover("size:encoded_bytes", class(int64(nbytes)))
	c.Cover("size:constants", class(int64(info.nconsts)))
	c.Cover("size:names", class(int64(info.nnames)))
	c.Cover("size:globals", class(int64(info.nglobals)))
	c.Cover("size:functions", class(int64(info.nfuncs)))
	c.Cover("size:locals", class(int64(info.maxLocals)))
	c.Cover("size:cells", class(int64(info.maxCells)))
	c.Cover("size:freevars", class(int64(info.maxFree)))
	c.Cover("size:code_bytes", class(int64(info.maxCode)))
	c.Cover("size:string_len", class(int64(info.maxStr)))
	c.Cover("size:line", class(info.maxLine))
	c.Cover("size:col", class(info.maxCol))
	c.Cover("size:maxstack", class(info.maxStack))
	c.Cover("size:params", class(info.maxParams))
	c.Cover("size:loads", class(int64(info.nloads)))
	c.Cover("varint_bytes", fmt.Sprint(info.maxVarint))
	if info.rowsInc > 0 {
		c.Cover("linetab", "saturated-delta")
	}
	if info.rowsInc >= 3 {
		c.Cover("linetab", "saturated>=3-rows")
	}
	if info.rowsInc >= 1000 {
		c.Cover("linetab", "saturated>=1000-rows")
	}
	if info.rowsNegL > 0 {
		c.Cover("linetab", "negative-line-delta")
	}
	if info.rowsNegC > 0 {
		c.Cover("linetab", "negative-col-delta")
	}
	if info.rowsWide > 0 {
		c.Cover("linetab", "row>8bits")
	}
}
