package c17

import (
	"encoding/binary"
	"fmt"
)

// An independent reader of the documented encoding (serial.go's header comment). It is used for
// evidence (what the encoded programs actually contained) and to name the section in which two
// encodings first differ. It never decides a verdict on its own.

type section struct {
	name string
	off  int // offset in the whole file at which the section starts
}

type encInfo struct {
	ok        bool
	err       string
	sections  []section
	strOff    int
	consts    map[string]int // kind -> count
	nfuncs    int
	nloads    int
	nnames    int
	nglobals  int
	nconsts   int
	maxLocals int
	maxCells  int
	maxFree   int
	maxCode   int
	maxStr    int
	maxLine   int64
	maxCol    int64
	maxStack  int64
	maxParams int64
	rows      int // line table rows
	rowsInc   int // rows with the "incomplete" bit (a saturated delta continues in the next row)
	rowsNegL  int // rows with a negative line delta
	rowsNegC  int // rows with a negative column delta
	rowsWide  int // rows whose value needs more than 8 bits
	maxVarint int // widest varint seen (bytes)
	recursion int64
	docs      int // functions with a non-empty docstring
	kwonly    int
	varargs   int
	kwargs    int
}

type encReader struct {
	p, s []byte
	base int // offset of p[0] in the file
	pos  int
	info *encInfo
}

func (r *encReader) varint() int64 {
	x, n := binary.Varint(r.p[r.pos:])
	if n <= 0 {
		panic("bad varint")
	}
	if n > r.info.maxVarint {
		r.info.maxVarint = n
	}
	r.pos += n
	return x
}

func (r *encReader) uvarint() uint64 {
	x, n := binary.Uvarint(r.p[r.pos:])
	if n <= 0 {
		panic("bad uvarint")
	}
	if n > r.info.maxVarint {
		r.info.maxVarint = n
	}
	r.pos += n
	return x
}

func (r *encReader) str() int {
	n := int(r.varint())
	if n < 0 || n > len(r.s) {
		panic("bad string length")
	}
	r.s = r.s[n:]
	if n > r.info.maxStr {
		r.info.maxStr = n
	}
	return n
}

func (r *encReader) binding() {
	r.str()
	l, c := r.varint(), r.varint()
	if l > r.info.maxLine {
		r.info.maxLine = l
	}
	if c > r.info.maxCol {
		r.info.maxCol = c
	}
}

func (r *encReader) bindings() int {
	n := int(r.varint())
	if n < 0 || n > len(r.p) {
		panic("bad count")
	}
	for i := 0; i < n; i++ {
		r.binding()
	}
	return n
}

func (r *encReader) mark(name string) {
	r.info.sections = append(r.info.sections, section{name, r.base + r.pos})
}

func (r *encReader) function() {
	in := r.info
	r.binding()
	if r.str() > 0 {
		in.docs++
	}
	if n := r.str(); n > in.maxCode {
		in.maxCode = n
	}
	nrows := int(r.varint())
	if nrows < 0 || nrows > len(r.p) {
		panic("bad line table length")
	}
	for i := 0; i < nrows; i++ {
		x := r.varint()
		in.rows++
		if x&1 != 0 {
			in.rowsInc++
		}
		if x > 0xff {
			in.rowsWide++
		}
		if (int16(uint16(x))<<4)>>11 < 0 {
			in.rowsNegL++
		}
		if (int16(uint16(x))<<9)>>10 < 0 {
			in.rowsNegC++
		}
	}
	if n := r.bindings(); n > in.maxLocals {
		in.maxLocals = n
	}
	nc := int(r.varint())
	if nc < 0 || nc > len(r.p) {
		panic("bad cell count")
	}
	for i := 0; i < nc; i++ {
		r.varint()
	}
	if nc > in.maxCells {
		in.maxCells = nc
	}
	if n := r.bindings(); n > in.maxFree {
		in.maxFree = n
	}
	if x := r.varint(); x > in.maxStack {
		in.maxStack = x
	}
	if x := r.varint(); x > in.maxParams {
		in.maxParams = x
	}
	if r.varint() > 0 {
		in.kwonly++
	}
	if r.varint() != 0 {
		in.varargs++
	}
	if r.varint() != 0 {
		in.kwargs++
	}
}

func inspect(data []byte) (info *encInfo) {
	info = &encInfo{consts: map[string]int{}}
	defer func() {
		if x := recover(); x != nil {
			info.ok = false
			info.err = fmt.Sprint(x)
		}
	}()
	if len(data) < 8 || string(data[:4]) != "!sky" {
		panic("no magic")
	}
	off := int(binary.LittleEndian.Uint32(data[4:8]))
	if off < 8 || off > len(data) {
		panic("bad string offset")
	}
	info.strOff = off
	r := &encReader{p: data[8:off], s: data[off:], base: 8, info: info}
	r.mark("version")
	r.varint()
	r.mark("filename")
	r.str()
	r.mark("loads")
	info.nloads = r.bindings()
	r.mark("names")
	info.nnames = int(r.varint())
	for i := 0; i < info.nnames; i++ {
		r.str()
	}
	r.mark("constants")
	info.nconsts = int(r.varint())
	for i := 0; i < info.nconsts; i++ {
		switch k := r.varint(); k {
		case 0:
			r.str()
			info.consts["string"]++
		case 1:
			r.str()
			info.consts["bytes"]++
		case 2:
			r.varint()
			info.consts["int64"]++
		case 3:
			r.uvarint()
			info.consts["float"]++
		case 4:
			r.str()
			info.consts["bigint"]++
		default:
			panic(fmt.Sprintf("unknown constant kind %d", k))
		}
	}
	r.mark("globals")
	info.nglobals = r.bindings()
	r.mark("toplevel")
	r.function()
	r.mark("functions")
	info.nfuncs = int(r.varint())
	for i := 0; i < info.nfuncs; i++ {
		r.function()
	}
	r.mark("recursion")
	info.recursion = r.varint()
	if r.pos != len(r.p) || len(r.s) != 0 {
		panic("trailing data")
	}
	info.ok = true
	return info
}

// diffSection names the section of a (parsed from the original encoding) in which a and b first differ.
func diffSection(a, b []byte, ia *encInfo) string {
	n := len(a)
	if len(b) < n {
		n = len(b)
	}
	if n < 8 {
		return "header"
	}
	if string(a[:4]) != string(b[:4]) {
		return "magic"
	}
	// The string-section offset (bytes 4..8) changes whenever any length changes: look past it first.
	i := 8
	for i < n && a[i] == b[i] {
		i++
	}
	if i == n && len(a) == len(b) {
		return "string-offset"
	}
	if !ia.ok {
		return "unparsed"
	}
	if i >= ia.strOff {
		return "strings"
	}
	name := "header"
	for _, s := range ia.sections {
		if s.off <= i {
			name = s.name
		}
	}
	return name
}

func class(n int64) string {
	switch {
	case n < 64:
		return "<2^6"
	case n < 256:
		return "<2^8"
	case n < 8192:
		return "<2^13"
	case n < 1<<14:
		return "<2^14"
	case n < 1<<16:
		return "<2^16"
	case n < 1<<20:
		return "<2^20"
	default:
		return ">=2^20"
	}
}
